#!/usr/bin/env python3
"""prints the markdown table of /verif/seeded from the meta.json files"""
import json, os
root = os.path.join(os.path.dirname(os.path.dirname(os.path.abspath(__file__))), "seeded")
print("| seeded change | what it does | checks that fire |")
print("|---|---|---|")
for n in sorted(os.listdir(root)):
    m = json.load(open(os.path.join(root, n, "meta.json")))
    own = m["property"]
    f = m.get("checks_fired") or []
    fs = ", ".join(("**%s**" % x if x == own else x) for x in f) or "— (superseded, see meta.json)"
    print("| %s | %s | %s |" % (n, m["change"].replace("|", "\\|")[:170], fs))
