#!/usr/bin/env python3
"""Mutant catalogue (DESIGN.md section 8): applies one source change to a scratch copy of /repo
(never to /repo itself), optionally confirms that the copy still builds and passes the 128 tests,
runs every quick check against the copy (VERIF_REPO), and reports which checks fire.
usage: tools/mutants.py [--tests] [--tier quick] [name ...]"""
import json
import os
import shutil
import subprocess
import sys
import tempfile
from concurrent.futures import ThreadPoolExecutor

VERIF = os.path.dirname(os.path.dirname(os.path.abspath(__file__)))
CG = "bitbybit/src/bitfield/codegen.rs"
PA = "bitbybit/src/bitfield/parsing.rs"
MO = "bitbybit/src/bitfield/mod.rs"
EN = "bitbybit/src/bitenum.rs"
BS = "bitbybit/src/bit_size.rs"

# name: (file, old, new, properties expected to fire, behaviour-preserving?)
M = {
    "getter_shift_plus1": (CG, "(((self.raw_value >> (#lowest_bit #array_shift)) & ((#one << #number_of_bits) - #one)) << #shift_left)",
                           "(((self.raw_value >> (#lowest_bit #array_shift + 1)) & ((#one << #number_of_bits) - #one)) << #shift_left)", ["C01", "C04", "C05"], False),
    "bool_getter_inverted": (CG, "(self.raw_value & (#one << (#lowest_bit #array_shift))) != 0", "(self.raw_value & (#one << (#lowest_bit #array_shift))) == 0", ["C01"], False),
    "bool_getter_drop_array_shift": (CG, "return quote! { (self.raw_value & (#one << (#lowest_bit #array_shift))) != 0 };", "return quote! { (self.raw_value & (#one << (#lowest_bit))) != 0 };", ["C03"], False),
    "setter_no_clear_mask": (CG, "(self.raw_value & !(((#one << #number_of_bits) - #one) << #lowest_bit)) | ((#argument_converted as #internal_base_data_type) << #lowest_bit)",
                             "(self.raw_value) | ((#argument_converted as #internal_base_data_type) << #lowest_bit)", ["C02"], False),
    "setter_mask_off_by_one": (CG, "(self.raw_value & !(((#one << #number_of_bits) - #one) << #lowest_bit)) | ((#argument_converted as #internal_base_data_type) << #lowest_bit)",
                               "(self.raw_value & !(((#one << #number_of_bits) - #one) << #lowest_bit)) | (((#argument_converted as #internal_base_data_type) << #lowest_bit) & !(#one << #lowest_bit) | (self.raw_value & (#one << #lowest_bit)))", ["C02"], False),
    "set_differs_from_with": (CG, """                    pub fn #setter_name(&mut self, field_value: #setter_type) {
                        self.raw_value = #new_raw_value;""", """                    pub fn #setter_name(&mut self, field_value: #setter_type) {
                        self.raw_value = (#new_raw_value) | 1;""", ["C02"], False),
    "signed_cast_dropped": (CG, "quote! { field_value as #unsigned_field_type }", "quote! { field_value }", ["C05"], False),
    "packed_swap_shift": (CG, "let shift_left = *target_lowest_bit;\n        *target_lowest_bit += number_of_bits;", "*target_lowest_bit += number_of_bits;\n        let shift_left = *target_lowest_bit - number_of_bits + (if lowest_bit == 5 { 1 } else { 0 });", ["C04"], False),
    "nc_array_mask_shifted_twice": (CG, "self.raw_value & (!(MASK << (index * #indexed_stride))) | (#new_bits << (index * #indexed_stride))",
                                    "self.raw_value & (!((MASK << (index * #indexed_stride)) << (index * #indexed_stride))) | (#new_bits << (index * #indexed_stride))", ["C04"], False),
    "set_array_no_assert": (CG, """                    pub fn #setter_name(&mut self, index: usize, field_value: #setter_type) {
                        assert!(index < #indexed_count);""", """                    pub fn #setter_name(&mut self, index: usize, field_value: #setter_type) {""", ["C03"], False),
    "enum_maxdiscr_gt": (EN, "if max_discr >= max_count {", "if max_discr > max_count {", ["C10"], False),
    "enum_exhaustive_check_off": (EN, "if !config.exhaustive.matches(actually_exhaustive) {", "if false && !config.exhaustive.matches(actually_exhaustive) {", ["C10"], False),
    "width_check_deleted": (PA, "} else if number_of_bits != field_type_size {", "} else if false && number_of_bits != field_type_size {", ["C09"], False),
    "builder_overlap_check_deleted": (CG, "if (previous_mask & field_mask) != 0 {", "if false && (previous_mask & field_mask) != 0 {", ["C14"], False),
    "builder_starts_from_zero": (CG, "quote! { #builder_struct_name(#struct_name::DEFAULT) }", "quote! { #builder_struct_name(#struct_name::ZERO) }", ["C13"], False),
    "builder_array_reversed": (CG, "array_setters.push(quote! { .#with_name(#i, value[#i]) });", "let j = array_count - 1 - i; array_setters.push(quote! { .#with_name(#i, value[#j]) });", ["C13"], False),
    "getter_not_const": (CG, """                        pub const fn #field_name(&self) -> #getter_type {""", """                        pub fn #field_name(&self) -> #getter_type {""", ["C15"], False),
    "std_fmt_path": (MO, "impl ::core::fmt::Debug for #struct_name {", "impl ::std::fmt::Debug for #struct_name {", ["C18"], False),
    "getter_for_w_fields": (PA, "        getter_type: if provide_getter {", "        getter_type: if provide_getter || provide_setter {", ["C17"], False),
    "debug_skips_second_field": (MO, """            .iter()
            .map(|field| {
                let field_name = &field.field_name;
                quote! {
                    .field(stringify!(#field_name), &self.#field_name())""", """            .iter()
            .enumerate()
            .filter(|(i, _)| *i != 1)
            .map(|(_, field)| {
                let field_name = &field.field_name;
                quote! {
                    .field(stringify!(#field_name), &self.#field_name())""", ["C19"], False),
    "debug_prints_raw": (MO, """                    f.debug_struct(stringify!(#struct_name))
                        #(#debug_fields)*
                        .finish()""", """                    f.debug_struct(stringify!(#struct_name))
                        .field("raw_value", &self.raw_value)
                        .finish()""", ["C19"], False),
    "raw_value_new_and_exposed_bound_off": (PA, "match parse_field(base_data_size.exposed, field) {", "match parse_field(base_data_size.internal, field) {", ["C09", "C11"], False),
    "special_case_width_13": (CG, "let number_of_bits = field_definition.ranges[0].len();\n        if number_of_bits == base_data_size.internal {",
                              "let number_of_bits = field_definition.ranges[0].len();\n        if number_of_bits == 13 { return quote! { (self.raw_value & !(((#one << 12) - #one) << #lowest_bit)) | (((#argument_converted as #internal_base_data_type) & ((#one << 12) - #one)) << #lowest_bit) }; }\n        if number_of_bits == base_data_size.internal {", ["C02"], False),
    "fullwidth_special_case_removed_getter": (CG, "if field_definition.ranges.len() == 1\n            && field_definition.ranges[0].len() == base_data_size.internal", "if false && field_definition.ranges.len() == 1\n            && field_definition.ranges[0].len() == base_data_size.internal", ["C16"], False),
    "array_stride_default_wrong": (PA, "indexed_stride = Some(number_of_bits)", "indexed_stride = Some(number_of_bits + if number_of_bits == 3 { 1 } else { 0 })", ["C03"], False),
    "default_trait_zero": (MO, """                fn default() -> Self {
                    Self::DEFAULT""", """                fn default() -> Self {
                    Self::ZERO""", ["C06"], False),
    "builder_completeness_uses_internal": (CG, "(running_mask.count_ones() as usize != base_data_size.exposed) && !has_default", "(running_mask.count_ones() as usize != base_data_size.internal) && !has_default", ["C14"], False),
    "enum_raw_value_truncates": (EN, "#raw_value_constructor(self as #base_type)", "#raw_value_constructor((self as #base_type) & 0x7f)", ["C07"], False),
    "enum_err_returns_zero": (EN, "true => quote!(value => Err(value)),", "true => quote!(value => Err(value & 0)),", ["C07"], False),
    # behaviour-preserving rewrites: every check must stay silent
    "bp_or_operands_swapped": (CG, "(self.raw_value & !(((#one << #number_of_bits) - #one) << #lowest_bit)) | ((#argument_converted as #internal_base_data_type) << #lowest_bit)",
                               "((#argument_converted as #internal_base_data_type) << #lowest_bit) | (!(((#one << #number_of_bits) - #one) << #lowest_bit) & self.raw_value)", [], True),
    "bp_mask_via_max_shift": (CG, "(((self.raw_value >> (#lowest_bit #array_shift)) & ((#one << #number_of_bits) - #one)) << #shift_left)",
                              "(((self.raw_value >> (#lowest_bit #array_shift)) & (!(!(#one - #one) << #number_of_bits))) << #shift_left)", [], True),
    "bp_plus_instead_of_or": (CG, "self.raw_value & CLEAR_MASK | #new_bits", "(self.raw_value & CLEAR_MASK) + #new_bits", [], True),
    "bp_set_via_with": (CG, """                    pub fn #setter_name(&mut self, field_value: #setter_type) {
                        self.raw_value = #new_raw_value;""", """                    pub fn #setter_name(&mut self, field_value: #setter_type) {
                        *self = self.#with_name(field_value);""", [], True),
    "bp_debug_statement_form": (MO, """                    f.debug_struct(stringify!(#struct_name))
                        #(#debug_fields)*
                        .finish()""", """                    let mut d = f.debug_struct(stringify!(#struct_name));
                    let _ = &mut d #(#debug_fields)* ;
                    d.finish()""", [], True),
    "bp_xor_setter": (CG, "(self.raw_value & !(((#one << #number_of_bits) - #one) << #lowest_bit)) | ((#argument_converted as #internal_base_data_type) << #lowest_bit)",
                      "self.raw_value ^ ((self.raw_value ^ ((#argument_converted as #internal_base_data_type) << #lowest_bit)) & (((#one << #number_of_bits) - #one) << #lowest_bit))", [], True),
    "bp_bool_setter_branchless": (CG, "if #argument_converted { self.raw_value | (#one << #lowest_bit) } else { self.raw_value & !(#one << #lowest_bit) }",
                                  "(self.raw_value & !(#one << #lowest_bit)) | ((#argument_converted as #internal_base_data_type) << #lowest_bit)", [], True),
    "bp_enum_raw_value_match_free": (EN, "#raw_value_constructor(self as #base_type)", "#raw_value_constructor((self as #base_type) | 0)", [], True),
    "bp_partial_holds_raw": (CG, None, None, [], True),
    "bp_enum_if_chain": (EN, None, None, [], True),
    "bp_rename_temp": (CG, "let extracted_bits = #extracted_bits;\n                            #convert_type::new_with_raw_value(extracted_bits)", "let raw_bits = #extracted_bits;\n                            #convert_type::new_with_raw_value(raw_bits)", [], True),
}


# mutants made of several edits in one file
MULTI = {
    # new_with_raw_value written as an if-chain with early returns instead of a match
    "bp_enum_if_chain": [
        ("quote!( #( #cfg_attrs )* (#value) => #ok(Self::#variant_name) )", "quote!( #( #cfg_attrs )* if raw == (#value) { return #ok(Self::#variant_name); } )"),
        ("true => quote!(value => Err(value)),", "true => quote!(Err(raw)),"),
        ("false => quote!(_ => unreachable!()),", "false => quote!(unreachable!()),"),
        ("""                match value #reader {
                    #( #new_match_branches ,)*
                    #new_default_branch
                }""", """                let raw = value #reader;
                #( #new_match_branches )*
                #new_default_branch"""),
    ],
    # the builder's Partial type wraps the raw integer instead of the struct (same behaviour, different representation)
    "bp_partial_holds_raw": [
        ("#struct_vis struct #builder_struct_name<const MASK: #internal_base_data_type>(#struct_name);",
         "#struct_vis struct #builder_struct_name<const MASK: #internal_base_data_type>(#internal_base_data_type);"),
        ("array_setters.push(quote! { .#with_name(#i, value[#i]) });", "array_setters.push(quote! { .#with_name(#i, value[#i]) });\n                    let _ = &array_setters;"),
        ("let value_transform = quote!(self.0 #( #array_setters )*);", "let value_transform = quote!(#struct_name { raw_value: self.0 } #( #array_setters )* .raw_value);"),
        ("quote! { self.0.#with_name(value)},", "quote! { #struct_name { raw_value: self.0 }.#with_name(value).raw_value },"),
        ("""            pub const fn build(&self) -> #struct_name {
                self.0
            }""", """            pub const fn build(&self) -> #struct_name {
                #struct_name { raw_value: self.0 }
            }"""),
        ("quote! { #builder_struct_name(#struct_name::DEFAULT) }", "quote! { #builder_struct_name(#struct_name::DEFAULT.raw_value) }"),
        ("quote! { #builder_struct_name(#struct_name::new_with_raw_value(0)) }", "quote! { #builder_struct_name(#struct_name::new_with_raw_value(0).raw_value) }"),
        ("#builder_struct_name(#struct_name::new_with_raw_value(ZERO))", "#builder_struct_name(#struct_name::new_with_raw_value(ZERO).raw_value)"),
    ],
}


def run_one(name, tests, tier):
    file, old, new, expect, preserving = M[name]
    d = tempfile.mkdtemp(prefix="mut_%s_" % name, dir="/tmp")
    repo = os.path.join(d, "repo")
    cache = os.path.join(d, "cache")
    res = {"name": name, "expect": expect, "preserving": preserving}
    try:
        shutil.copytree("/repo", repo, ignore=shutil.ignore_patterns("target", ".git"))
        p = os.path.join(repo, file)
        s = open(p).read()
        edits = MULTI.get(name) or [(old, new)]
        for (o, n) in edits:
            if s.count(o) != 1:
                res["error"] = "pattern occurs %d times: %s" % (s.count(o), o[:50])
                return res
            s = s.replace(o, n)
        open(p, "w").write(s)
        env = dict(os.environ, CARGO_NET_OFFLINE="true")
        if tests:
            r = subprocess.run("cargo test --workspace --no-fail-fast --offline 2>&1", shell=True, cwd=repo, env=env, stdout=subprocess.PIPE, text=True)
            ok = "128 passed; 0 failed" in r.stdout and "FAILED" not in r.stdout and "error: could not compile" not in r.stdout
            res["tests"] = "ok" if ok else "FAIL: " + " | ".join(l for l in r.stdout.splitlines() if l.startswith("test result") or l.startswith("error"))[:300]
            shutil.rmtree(os.path.join(repo, "target"), ignore_errors=True)
        env["VERIF_REPO"] = repo
        env["VERIF_CACHE"] = cache
        env["VERIF_EVIDENCE"] = os.path.join(d, "evidence")
        env["VERIF_REPLAY"] = os.path.join(d, "replay")
        r = subprocess.run([sys.executable, os.path.join(VERIF, "engines", "check.py"), "all", tier], cwd=VERIF, env=env, stdout=subprocess.PIPE, stderr=subprocess.STDOUT, text=True)
        fired, und, firstv = [], [], {}
        cur_v = []
        for line in r.stdout.splitlines():
            if line.startswith("  violation:"):
                cur_v.append(line[13:260])
            if line.startswith("VIOLATION property="):
                pid = line.split("=")[1].split()[0]
                fired.append(pid)
                firstv[pid] = cur_v[:1]
                cur_v = []
            if line.startswith("UNDECIDED") or line.startswith("INFRA"):
                und.append(line[:200])
        res["fired"] = fired
        res["undecided"] = und[:4]
        res["first"] = firstv
        res["caught"] = bool(fired) if not preserving else None
        res["silent"] = (not fired and not und) if preserving else None
        return res
    finally:
        shutil.rmtree(d, ignore_errors=True)


def main():
    args = [a for a in sys.argv[1:] if not a.startswith("--")]
    tests = "--tests" in sys.argv
    tier = "thorough" if "--thorough" in sys.argv else "quick"
    names = args or list(M)
    # evidence files are rewritten by every check: keep the real ones
    ev = os.path.join(VERIF, "evidence")
    bak = tempfile.mkdtemp(prefix="evbak_", dir="/tmp")
    if os.path.isdir(ev):
        shutil.copytree(ev, os.path.join(bak, "evidence"))
    try:
        with ThreadPoolExecutor(max_workers=4) as ex:
            results = list(ex.map(lambda n: run_one(n, tests, tier), names))
    finally:
        if os.path.isdir(os.path.join(bak, "evidence")):
            shutil.rmtree(ev, ignore_errors=True)
            shutil.copytree(os.path.join(bak, "evidence"), ev)
        shutil.rmtree(bak, ignore_errors=True)
    for r in results:
        print(json.dumps(r))
    return 0


if __name__ == "__main__":
    sys.exit(main())
