#!/usr/bin/env python3
"""mkseedtasks.py <round> <outroot> <worktree-prefix>: write TASK.md for one seeding round (one per property).
The task text contains only the property and the one-line ideas of earlier rounds (to steer away from repeats);
nothing about how /verif decides anything."""
import json, os, sys, glob
VERIF = os.path.dirname(os.path.dirname(os.path.abspath(__file__)))
rnd, outroot, wtp = sys.argv[1], sys.argv[2], sys.argv[3]
tmpl = open(os.path.join(VERIF, "tools", ("seedtask8.tmpl" if int(rnd) >= 8 else "seedtask7.tmpl") if int(rnd) >= 7 else "seedtask.tmpl")).read()
for line in open(os.path.join(VERIF, "properties.jsonl")):
    p = json.loads(line)
    pid = p["id"]
    prev = []
    for d in sorted(glob.glob(os.path.join(VERIF, "seeded", pid + "*"))):
        m = json.load(open(os.path.join(d, "meta.json")))
        prev.append(m.get("change", ""))
    others = []
    if int(rnd) >= 10:
        for d in sorted(glob.glob(os.path.join(VERIF, "seeded", "C*_r[891]*"))):
            m = json.load(open(os.path.join(d, "meta.json")))
            if m["property"] != pid:
                others.append(m.get("change", "")[:150])
    text = "%s: %s\n\n%s\n\nQuantifier: %s" % (pid, p.get("title", ""), p.get("statement", ""), (p.get("quantifier") or {}).get("text", ""))
    ideas = "\n".join("    %d. %s" % (i + 1, c) for i, c in enumerate(prev))
    if others:
        ideas += "\n\nIdeas already used against OTHER properties of this crate in recent rounds (do not reuse their mechanism either):\n" + "\n".join("    - %s" % c for c in others)
    out = os.path.join(outroot, pid)
    os.makedirs(out, exist_ok=True)
    t = tmpl.replace("@WT@", wtp + pid).replace("@OUT@", out).replace("@PROP@", text).replace("@IDEAS@", ideas).replace("@N@", str(len(prev)))
    open(os.path.join(out, "TASK.md"), "w").write(t)
print("ok")
