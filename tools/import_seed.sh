#!/bin/sh
# usage: tools/import_seed.sh <src dir> <name under /verif/seeded>
set -e
d=/verif/seeded/$2
mkdir -p $d
cp $1/patch.diff $d/
cp $1/notes.md $d/ 2>/dev/null || true
cp $1/*.rs $d/ 2>/dev/null || true
python3 /verif/tools/seedrun.py $d > /tmp/seedrun_$2.json 2>&1 || true
python3 - $2 <<'PY'
import json,sys
p=sys.argv[1]
try: r=json.load(open('/tmp/seedrun_%s.json'%p))
except Exception as e:
    print(p,'ERR',open('/tmp/seedrun_%s.json'%p).read()[-400:]); sys.exit()
print(p, 'demo_wo=',r.get('demo_without_change'),'demo_w=',r.get('demo_with_change'),'suite=',r.get('suite_with_change'),'fired=',r.get('fired'),'und=',r.get('undecided',[])[:2])
for k,v in r.get('first',{}).items(): print('     ',k,v[:1])
PY
