#!/bin/sh
# usage: tools/bprun.sh <diff file> <name>  -- runs every quick check against /repo + that behaviour-preserving diff
set -e
d=/verif/refactors/$2
mkdir -p $d
cp $1 $d/patch.diff
[ -f "${1%.diff}.md" ] && cp "${1%.diff}.md" $d/description.md
python3 /verif/tools/seedrun.py $d --no-demo > /tmp/bprun_$2.json 2>&1 || true
python3 - $2 <<'PY'
import json,sys
n=sys.argv[1]
try: r=json.load(open('/tmp/bprun_%s.json'%n))
except Exception: print(n,'ERR',open('/tmp/bprun_%s.json'%n).read()[-300:]); sys.exit()
print(n,'applied=',r.get('patch_applied'),'suite=',r.get('suite_with_change'),'FIRED=',r.get('fired'),'und=',len(r.get('undecided',[])))
for k,v in r.get('first',{}).items(): print('     ',k,v[:1])
for u in r.get('undecided',[])[:3]: print('      und:',u[:200])
PY
