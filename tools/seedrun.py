#!/usr/bin/env python3
"""Evaluate one seeded change kept under /verif/seeded/<id>/ (or any dir with patch.diff [+ demo.rs]):
applies it to a scratch copy of /repo (never to /repo), confirms the 128 tests still pass, runs the
demonstration with and without the change, then runs every check against the copy.
usage: tools/seedrun.py <dir> [--tier quick|thorough] [--no-demo] [--checks C01,C02]"""
import json
import os
import shutil
import subprocess
import sys
import tempfile

VERIF = os.path.dirname(os.path.dirname(os.path.abspath(__file__)))


def sh(cmd, cwd, env=None):
    return subprocess.run(cmd, shell=True, cwd=cwd, env=env, stdout=subprocess.PIPE, stderr=subprocess.STDOUT, text=True)


def suite_ok(out):
    return "128 passed; 0 failed" in out and "FAILED" not in out and "error: could not compile" not in out


def main():
    d = os.path.abspath(sys.argv[1])
    tier = "quick"
    if "--tier" in sys.argv:
        tier = sys.argv[sys.argv.index("--tier") + 1]
    checks = "all"
    if "--checks" in sys.argv:
        checks = sys.argv[sys.argv.index("--checks") + 1]
    patch = os.path.join(d, "patch.diff")
    demo = os.path.join(d, "demo.rs")
    tmp = tempfile.mkdtemp(prefix="seedrun_", dir="/tmp")
    repo = os.path.join(tmp, "repo")
    res = {"dir": d}
    env = dict(os.environ, CARGO_NET_OFFLINE="true")
    try:
        shutil.copytree("/repo", repo, ignore=shutil.ignore_patterns("target", ".git"))
        use_demo = os.path.exists(demo) and "--no-demo" not in sys.argv
        lib = os.path.join(repo, "bitbybit-tests", "src", "lib.rs")
        lib0 = open(lib).read()
        if use_demo:
            shutil.copy(demo, os.path.join(repo, "bitbybit-tests", "src", "seed_demo.rs"))
            open(lib, "w").write(lib0 + "#[cfg(test)]\nmod seed_demo;\n")
            r = sh("cargo test --offline -p bitbybit-tests seed_demo 2>&1 | tail -30", repo, env)
            res["demo_without_change"] = "pass" if ("test result: ok" in r.stdout and "0 failed" in r.stdout and "error" not in r.stdout.split("test result")[0][-400:]) else "FAIL"
            res["demo_without_tail"] = r.stdout[-500:]
        r = sh("patch -p1 < %s" % patch, repo, env)
        res["patch_applied"] = r.returncode == 0
        if r.returncode != 0:
            res["patch_out"] = r.stdout[-400:]
            print(json.dumps(res, indent=1))
            return 1
        if use_demo:
            r = sh("cargo test --offline -p bitbybit-tests seed_demo 2>&1 | tail -40", repo, env)
            res["demo_with_change"] = "fails" if ("FAILED" in r.stdout or "error" in r.stdout or "panicked" in r.stdout) else "PASSES"
            res["demo_with_tail"] = r.stdout[-700:]
            os.remove(os.path.join(repo, "bitbybit-tests", "src", "seed_demo.rs"))
            open(lib, "w").write(lib0)
        r = sh("cargo test --workspace --no-fail-fast --offline 2>&1", repo, env)
        res["suite_with_change"] = "128 pass" if suite_ok(r.stdout) else "NOT OK: " + " | ".join(l for l in r.stdout.splitlines() if l.startswith("test result") or l.startswith("error"))[:300]
        shutil.rmtree(os.path.join(repo, "target"), ignore_errors=True)
        env["VERIF_REPO"] = repo
        env["VERIF_CACHE"] = os.path.join(tmp, "cache")
        env["VERIF_EVIDENCE"] = os.path.join(tmp, "evidence")
        env["VERIF_REPLAY"] = os.path.join(tmp, "replay")
        fired, und, first = [], [], {}
        try:
            for pid in ([checks] if checks == "all" else checks.split(",")):
                r = subprocess.run([sys.executable, os.path.join(VERIF, "engines", "check.py"), pid, tier], cwd=VERIF, env=env, stdout=subprocess.PIPE, stderr=subprocess.STDOUT, text=True)
                cur = []
                for line in r.stdout.splitlines():
                    if line.startswith("  violation:"):
                        cur.append(line[13:330])
                    elif line.startswith("VIOLATION property="):
                        p = line.split("=")[1].split()[0]
                        fired.append(p)
                        first[p] = cur[:2]
                        cur = []
                    elif line.startswith("UNDECIDED") or line.startswith("INFRA"):
                        und.append(line[:220])
        finally:
            pass
        res["fired"] = fired
        res["first"] = first
        res["undecided"] = und[:6]
        print(json.dumps(res, indent=1))
        return 0
    finally:
        shutil.rmtree(tmp, ignore_errors=True)


if __name__ == "__main__":
    sys.exit(main())
