//! gensrc: token-level scan of the generator's own source (bitbybit/src/**/*.rs).
//!   --templates : every `quote!{..}` group and every string literal fed to a token parser is
//!                 scanned for `unsafe` and for paths rooted at std/alloc (C18, generator level)
//!   --literals  : every integer literal in the generator (pulled into the corpus boundary sets)
use proc_macro2::{Delimiter, TokenStream, TokenTree};
use std::str::FromStr;

#[derive(Default)]
struct Scan {
    templates: usize,
    tokens: usize,
    string_sources: usize,
    findings: Vec<(String, String, String, usize)>,
    literals: Vec<u128>,
}

const TEMPLATE_MACROS: [&str; 3] = ["quote", "quote_spanned", "parse_quote"];
const STRING_PARSERS: [&str; 3] = ["parse_str", "from_str", "format_ident"];

fn check_stream(ts: &TokenStream, kind: &str, file: &str, sc: &mut Scan) {
    let toks: Vec<TokenTree> = ts.clone().into_iter().collect();
    for (i, t) in toks.iter().enumerate() {
        sc.tokens += 1;
        match t {
            TokenTree::Ident(id) => {
                let s = id.to_string();
                let line = id.span().start().line;
                if s == "unsafe" {
                    sc.findings.push((kind.to_string(), file.to_string(), s.clone(), line));
                }
                // emitted code whose meaning depends on the build profile or the target of the *user's* crate
                if matches!(s.as_str(), "debug_assert" | "debug_assert_eq" | "debug_assert_ne" | "debug_assertions" | "overflow_checks" | "to_ne_bytes" | "from_ne_bytes" | "target_endian" | "target_pointer_width") {
                    sc.findings.push((kind.to_string(), file.to_string(), s.clone(), line));
                }
                if s == "std" || s == "alloc" {
                    // a path root: followed by `::`
                    let next_colon = matches!(toks.get(i + 1), Some(TokenTree::Punct(p)) if p.as_char() == ':');
                    // not a later segment such as `core::alloc` handled: preceded by ident + `::`
                    let prev_is_seg = i >= 3
                        && matches!(&toks[i - 1], TokenTree::Punct(p) if p.as_char() == ':')
                        && matches!(&toks[i - 2], TokenTree::Punct(p) if p.as_char() == ':')
                        && matches!(&toks[i - 3], TokenTree::Ident(_));
                    if next_colon && !prev_is_seg {
                        sc.findings.push((kind.to_string(), file.to_string(), format!("{}::", s), line));
                    }
                }
                if s == "extern" {
                    if let Some(TokenTree::Ident(n)) = toks.get(i + 1) {
                        if n == "crate" {
                            sc.findings.push((kind.to_string(), file.to_string(), "extern crate".into(), line));
                        }
                    }
                }
            }
            TokenTree::Group(g) => check_stream(&g.stream(), kind, file, sc),
            _ => {}
        }
    }
}

fn strings_in(ts: &TokenStream, file: &str, sc: &mut Scan) {
    for t in ts.clone() {
        match t {
            TokenTree::Literal(l) => {
                let s = l.to_string();
                if s.starts_with('"') || s.starts_with("r\"") || s.starts_with("r#") {
                    sc.string_sources += 1;
                    let inner = s.trim_start_matches('r').trim_matches('#').trim_matches('"').replace("{}", " X ").replace("{:#x}", " 0 ");
                    if let Ok(ts2) = TokenStream::from_str(&inner) {
                        check_stream(&ts2, "string", file, sc);
                    }
                }
            }
            TokenTree::Group(g) => strings_in(&g.stream(), file, sc),
            _ => {}
        }
    }
}

fn walk(ts: &TokenStream, file: &str, sc: &mut Scan) {
    let toks: Vec<TokenTree> = ts.clone().into_iter().collect();
    let mut i = 0;
    while i < toks.len() {
        match &toks[i] {
            TokenTree::Ident(id) => {
                let s = id.to_string();
                let bang = matches!(toks.get(i + 1), Some(TokenTree::Punct(p)) if p.as_char() == '!');
                if bang && TEMPLATE_MACROS.contains(&s.as_str()) {
                    if let Some(TokenTree::Group(g)) = toks.get(i + 2) {
                        sc.templates += 1;
                        check_stream(&g.stream(), "template", file, sc);
                        // templates may nest further quote! calls inside #( .. ) interpolations: fine, already covered
                        i += 3;
                        continue;
                    }
                }
                if STRING_PARSERS.contains(&s.as_str()) {
                    // find the argument group: skip an optional turbofish
                    let mut j = i + 1;
                    while j < toks.len() && j < i + 12 {
                        if let TokenTree::Group(g) = &toks[j] {
                            if g.delimiter() == Delimiter::Parenthesis {
                                strings_in(&g.stream(), file, sc);
                                break;
                            }
                        }
                        if let TokenTree::Punct(p) = &toks[j] {
                            if p.as_char() == ';' {
                                break;
                            }
                        }
                        j += 1;
                    }
                }
            }
            TokenTree::Group(g) => walk(&g.stream(), file, sc),
            TokenTree::Literal(l) => {
                let s = l.to_string().replace('_', "");
                let digits: String = s.chars().take_while(|c| c.is_ascii_digit()).collect();
                if !digits.is_empty() && !s.contains('.') && !s.starts_with("0x") && !s.starts_with("0b") {
                    if let Ok(v) = digits.parse::<u128>() {
                        sc.literals.push(v);
                    }
                }
                if let Some(h) = s.strip_prefix("0x") {
                    let hd: String = h.chars().take_while(|c| c.is_ascii_hexdigit()).collect();
                    if let Ok(v) = u128::from_str_radix(&hd, 16) {
                        sc.literals.push(v);
                    }
                }
            }
            _ => {}
        }
        i += 1;
    }
}

fn rs_files(dir: &std::path::Path, out: &mut Vec<std::path::PathBuf>) {
    if let Ok(rd) = std::fs::read_dir(dir) {
        let mut ents: Vec<_> = rd.flatten().map(|e| e.path()).collect();
        ents.sort();
        for p in ents {
            if p.is_dir() {
                rs_files(&p, out);
            } else if p.extension().map(|e| e == "rs").unwrap_or(false) {
                out.push(p);
            }
        }
    }
}

fn esc(s: &str) -> String {
    format!("\"{}\"", s.replace('\\', "\\\\").replace('"', "\\\""))
}

const FIXTURE: &str = r##"
fn gen() -> TokenStream {
    let a = quote! { pub fn f() { unsafe { ::std::mem::zeroed() } } };
    let b = syn::parse_str::<Type>(format!("alloc::vec::Vec<u{}>", 8).as_str());
    let c = quote! { ::core::alloc::Layout };
    let d = quote! { debug_assert!(index < 4); };
    quote! { #a #b #c #d }
}
"##;

fn main() {
    let args: Vec<String> = std::env::args().collect();
    if args.len() < 3 {
        eprintln!("usage: gensrc <src dir> --templates|--literals");
        std::process::exit(2);
    }
    let mut files = Vec::new();
    rs_files(std::path::Path::new(&args[1]), &mut files);
    let mut sc = Scan::default();
    let mut parsed = 0;
    for f in files.iter() {
        let text = std::fs::read_to_string(f).unwrap_or_default();
        match TokenStream::from_str(&text) {
            Ok(ts) => {
                parsed += 1;
                walk(&ts, &f.display().to_string(), &mut sc);
            }
            Err(e) => {
                eprintln!("gensrc: cannot tokenise {}: {}", f.display(), e);
                std::process::exit(3);
            }
        }
    }
    if args[2] == "--literals" {
        let mut l = sc.literals.clone();
        l.sort();
        l.dedup();
        let items: Vec<String> = l.iter().filter(|v| **v < (1u128 << 32)).map(|v| v.to_string()).collect();
        println!("{{\"literals\":[{}]}}", items.join(","));
        return;
    }
    // self test: the scanner must flag its own positive example, and only that
    let mut st = Scan::default();
    walk(&TokenStream::from_str(FIXTURE).unwrap(), "<fixture>", &mut st);
    let has = |tok: &str, kind: &str| st.findings.iter().any(|f| f.2 == tok && f.0 == kind);
    let selftest = has("unsafe", "template") && has("std::", "template") && has("alloc::", "string") && has("debug_assert", "template") && st.findings.len() == 4 && st.templates == 4;
    let findings: Vec<String> = sc
        .findings
        .iter()
        .map(|(k, f, t, l)| format!("{{\"kind\":{},\"file\":{},\"token\":{},\"line\":{}}}", esc(k), esc(f), esc(t), l))
        .collect();
    println!(
        "{{\"files\":{},\"templates\":{},\"tokens\":{},\"string_sources\":{},\"findings\":[{}],\"selftest\":{}}}",
        parsed,
        sc.templates,
        sc.tokens,
        sc.string_sources,
        findings.join(","),
        esc(if selftest { "ok" } else { "failed" })
    );
}
