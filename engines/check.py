#!/usr/bin/env python3
"""Entry point: check.py <property id> <quick|thorough>   (also: check.py all <tier>)"""
import json
import os
import sys
import time

HERE = os.path.dirname(os.path.abspath(__file__))
VERIF = os.path.dirname(HERE)
sys.path.insert(0, HERE)
import build as buildmod  # noqa: E402
import judge  # noqa: E402
import negjudge  # noqa: E402
import props as propmeta  # noqa: E402


def load_known():
    p = os.path.join(VERIF, "known_findings.json")
    if not os.path.exists(p):
        return {"known": [], "fixed": []}
    return json.load(open(p))


def seeds_of(tier, seed):
    """thorough explores two corpora: the sampled families, the random declarations (RND, random must-fail pairs)
    and the const-witness values differ per seed"""
    return [seed, seed + 1] if tier == "thorough" else [seed]


def run_property(pid, tier, seed, ctx_cache={}):
    t0 = time.time()
    meta = propmeta.PROPS[pid]
    infra = []
    obs = []
    shapes = set()
    programs = set()
    seen_keys = set()
    per_seed = []
    for sd in seeds_of(tier, seed):
        out_dir = buildmod.build(tier, sd)
        key = (out_dir,)
        if key not in ctx_cache:
            ctx_cache.clear()  # (one corpus in memory at a time)
            ctx_cache[key] = (judge.Facts(out_dir), {})
        facts, done = ctx_cache[key]
        ctx = judge.Ctx(facts)
        for r in facts.runs:
            if r["rc"] not in (0, 101):
                infra.append("cargo exited with %s in run %s (seed %d)" % (r["rc"], r["label"], sd))
        judge.analyse_positive(ctx, {pid})
        negjudge.analyse_negative(ctx, {pid})
        if pid in ("C18", "C16"):
            negjudge.analyse_generator(ctx)
        mine = [o for o in ctx.obs if pid in o.props]
        per_seed.append(len(mine))
        for o in mine:
            # the fixed families give the same obligation for every seed: count it once (a differing verdict is kept)
            k = (o.key, o.ok)
            if k in seen_keys:
                continue
            seen_keys.add(k)
            obs.append(o)
        shapes |= ctx.shapes.get(pid, set())
        programs |= ctx.programs.get(pid, set())
    known = load_known()
    known_keys = {k["key"]: k for k in known.get("known", []) if k["property"] == pid}
    viol = [o for o in obs if o.ok is False]
    und = [o for o in obs if o.ok is None]
    good = [o for o in obs if o.ok is True]
    reported_known = []
    new_viol = []
    for o in viol:
        if o.key in known_keys:
            reported_known.append(o)
        else:
            new_viol.append(o)
    if os.environ.get("VERIF_DUMP_OBS"):
        with open(os.environ["VERIF_DUMP_OBS"], "a") as f:
            for o in obs:
                f.write("%s\t%s\t%s\n" % (pid, o.key, o.ok))
    floor = meta["floor"][tier]
    floor_ok = min(per_seed) >= floor  # (the floor is per corpus)
    # evidence
    samples = [o.sample for o in good if o.sample]
    # spread the samples over the corpus instead of taking the first few
    if len(samples) > 6:
        step = max(1, len(samples) // 6)
        samples = samples[::step][:6]
    if not samples:
        samples = [{"obligation": o.key} for o in obs[:3]]
    by_path = {}
    for cn, m in facts.model.items():
        for d in m["decls"]:
            if d.get("kind") in ("struct", "enum"):
                by_path.setdefault(d["path"], d)
    for smp in samples:
        if isinstance(smp, dict) and smp.get("decl") in by_path and "declaration" not in smp:
            smp["declaration"] = judge.decl_text(by_path[smp["decl"]])[:600]
    ev = {
        "property_id": pid,
        "tier": tier,
        "seed": seed,
        "level": meta["level"],
        "coverage": {
            "obligations": len(obs),
            "corpus_seeds": seeds_of(tier, seed),
            "obligations_per_seed": per_seed,
            "discharged": len(good),
            "undecided": len(und),
            "violations": len(viol),
            "known_findings_matched": len(reported_known),
            "evaluations": len(obs),
            "distinct_nontrivial": len(shapes),
            "programs": len(programs),
            "rule": meta["rule"],
            "samples": samples,
            "checker_cmd": "python3 engines/check.py %s %s" % (pid, tier),
            "trusted_base": meta["trusted"],
            "exhaustive": bool(meta.get("exhaustive", {}).get(tier, False)),
            "explanation": meta["explanation"],
            "floor": floor,
            "corpus_crates": len(facts.meta["crates"]),
            "corpus_build_wall_s": facts.meta.get("build_wall_s"),
            "harvested_literals": facts.meta.get("harvested"),
            "disagreements_checked": len(viol),
            "undecided_samples": [{"key": o.key, "why": o.detail[:200]} for o in und[:5]],
            "violation_samples": [{"key": o.key, "why": o.detail[:300]} for o in viol[:10]],
        },
        "assumptions": meta["assumptions"],
        "wall_s": round(time.time() - t0, 2),
        "violations": len(new_viol),
    }
    evdir = os.environ.get("VERIF_EVIDENCE", os.path.join(VERIF, "evidence"))
    os.makedirs(evdir, exist_ok=True)
    with open(os.path.join(evdir, pid + ".json"), "w") as f:
        json.dump(ev, f, indent=1)
    # verdict
    for o in reported_known:
        print("KNOWN-FINDING: property=%s %s -- %s" % (pid, o.key, known_keys[o.key].get("what", o.detail)))
    rc = 0
    if new_viol:
        rdir = os.environ.get("VERIF_REPLAY", os.path.join(VERIF, "replay"))
        os.makedirs(rdir, exist_ok=True)
        rp = os.path.join(rdir, "%s_%s.json" % (pid, tier))
        with open(rp, "w") as f:
            json.dump({"property": pid, "tier": tier, "violations": [{"key": o.key, "detail": o.detail, "generator": meta.get("anchor")} for o in new_viol[:200]],
                       "count": len(new_viol)}, f, indent=1)
        for o in new_viol[:8]:
            print("  violation: %s :: %s" % (o.key, o.detail[:300]))
        print("VIOLATION property=%s replay=%s" % (pid, rp))
        rc = 1
    elif infra or und or not floor_ok:
        for m in infra:
            print("INFRA: %s" % m)
        for o in und[:8]:
            print("UNDECIDED: %s :: %s" % (o.key, o.detail[:300]))
        if not floor_ok:
            print("UNDECIDED: only %d obligations, floor is %d" % (min(per_seed), floor))
        rc = 2
    print("%s %s: obligations=%d discharged=%d undecided=%d violations=%d known=%d shapes=%d wall=%.1fs" % (
        pid, tier, len(obs), len(good), len(und), len(new_viol), len(reported_known), len(shapes), time.time() - t0))
    return rc


def main():
    if len(sys.argv) < 2:
        print(__doc__)
        return 2
    pid = sys.argv[1]
    tier = sys.argv[2] if len(sys.argv) > 2 else os.environ.get("VERIF_TIER", "quick")
    seed = int(os.environ.get("VERIF_SEED", "0") or 0)
    if pid == "all":
        worst = 0
        for p in sorted(propmeta.PROPS):
            rc = run_property(p, tier, seed)
            worst = max(worst, rc)
        return worst
    return run_property(pid, tier, seed)


if __name__ == "__main__":
    try:
        rc = main()
    except SystemExit:
        raise
    except Exception as exc:  # fail closed: an internal error is never a verdict
        import traceback
        traceback.print_exc()
        print("INFRA: internal error in the checker: %r" % (exc,))
        rc = 2
    sys.exit(rc)
