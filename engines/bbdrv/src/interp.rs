//! Bit-level abstract interpreter over MIR (see /verif/DESIGN.md section 3).
//!
//! Every integer is a vector of abstract bits: constant 0/1, a (possibly negated) copy of
//! one bit of a named input symbol, or unknown.  The transfer functions are exact on the
//! shift/mask/cast fragment the generator emits, so a result that is free of `T` bits is
//! a statement about *all* concrete inputs of the analysed partition.

use crate::json::{arr, esc, obj};
use rustc_abi::{FieldIdx, VariantIdx};
use rustc_hir::def_id::DefId;
use rustc_middle::mir::interpret::{GlobalAlloc, Scalar};
use rustc_middle::mir::{
    AggregateKind, AssertKind, BasicBlock, BinOp, Body, CastKind, Const, ConstValue, Local,
    Operand, Place, ProjectionElem, Rvalue, StatementKind, TerminatorKind, UnOp, START_BLOCK,
};
use rustc_middle::ty::{self, EarlyBinder, Instance, InstanceKind, Ty, TyCtxt, TypeFoldable, TypingEnv};
use rustc_span::DUMMY_SP;

pub const MAX_PATHS: usize = 4096;
pub const MAX_STEPS: usize = 400_000;
pub const MAX_DEPTH: usize = 8;

#[derive(Clone, Copy, PartialEq, Eq, Debug)]
pub enum Bit {
    Z,
    O,
    /// (symbol, bit index, negated)
    S(u32, u16, bool),
    /// a boolean function of two or three input bits (exact truth table)
    F(BFun),
    T,
}

/// truth table over `n` (2..=3) distinct input bits, sorted; entry i of `tt` is the value for the
/// assignment whose j-th variable is bit j of i.  Canonical: every variable is essential.
#[derive(Clone, Copy, PartialEq, Eq, Debug)]
pub struct BFun {
    pub n: u8,
    pub vars: [(u32, u16); 3],
    pub tt: u8,
}

fn bit_vars(b: Bit, out: &mut Vec<(u32, u16)>) {
    match b {
        Bit::S(s, k, _) => {
            if !out.contains(&(s, k)) {
                out.push((s, k));
            }
        }
        Bit::F(f) => {
            for i in 0..f.n as usize {
                if !out.contains(&f.vars[i]) {
                    out.push(f.vars[i]);
                }
            }
        }
        _ => {}
    }
}

fn bit_eval(b: Bit, vars: &[(u32, u16)], asg: usize) -> bool {
    let val = |v: (u32, u16)| -> bool {
        let i = vars.iter().position(|x| *x == v).unwrap();
        (asg >> i) & 1 == 1
    };
    match b {
        Bit::Z => false,
        Bit::O => true,
        Bit::S(s, k, n) => val((s, k)) != n,
        Bit::F(f) => {
            let mut idx = 0;
            for i in 0..f.n as usize {
                if val(f.vars[i]) {
                    idx |= 1 << i;
                }
            }
            (f.tt >> idx) & 1 == 1
        }
        Bit::T => false,
    }
}

/// canonical bit for the function given by `tt` over `vars` (at most 3)
fn bit_from_tt(vars: &[(u32, u16)], tt: u8) -> Bit {
    // drop variables the function does not depend on
    let n = vars.len();
    let mut keep: Vec<usize> = Vec::new();
    for i in 0..n {
        let mut essential = false;
        for a in 0..(1usize << n) {
            if (a >> i) & 1 == 0 {
                let b = a | (1 << i);
                if ((tt >> a) & 1) != ((tt >> b) & 1) {
                    essential = true;
                    break;
                }
            }
        }
        if essential {
            keep.push(i);
        }
    }
    let mut kv: Vec<(u32, u16)> = keep.iter().map(|i| vars[*i]).collect();
    let order: Vec<(u32, u16)> = {
        kv.sort();
        kv.clone()
    };
    let m = order.len();
    let mut ntt: u8 = 0;
    for a in 0..(1usize << m) {
        // build an assignment of the original variables (dropped ones = 0)
        let mut orig = 0usize;
        for (j, v) in order.iter().enumerate() {
            if (a >> j) & 1 == 1 {
                let oi = vars.iter().position(|x| x == v).unwrap();
                orig |= 1 << oi;
            }
        }
        if (tt >> orig) & 1 == 1 {
            ntt |= 1 << a;
        }
    }
    match m {
        0 => {
            if ntt & 1 == 1 {
                Bit::O
            } else {
                Bit::Z
            }
        }
        1 => Bit::S(order[0].0, order[0].1, ntt == 0b01),
        _ => {
            let mut vs = [(0u32, 0u16); 3];
            for (j, v) in order.iter().enumerate() {
                vs[j] = *v;
            }
            Bit::F(BFun { n: m as u8, vars: vs, tt: ntt })
        }
    }
}

fn bit_apply2(a: Bit, b: Bit, op: fn(bool, bool) -> bool) -> Bit {
    if a == Bit::T || b == Bit::T {
        return Bit::T;
    }
    let mut vars: Vec<(u32, u16)> = Vec::new();
    bit_vars(a, &mut vars);
    bit_vars(b, &mut vars);
    if vars.len() > 3 {
        return Bit::T;
    }
    let mut tt: u8 = 0;
    for asg in 0..(1usize << vars.len()) {
        if op(bit_eval(a, &vars, asg), bit_eval(b, &vars, asg)) {
            tt |= 1 << asg;
        }
    }
    bit_from_tt(&vars, tt)
}

impl Bit {
    fn not(self) -> Bit {
        match self {
            Bit::Z => Bit::O,
            Bit::O => Bit::Z,
            Bit::S(s, k, n) => Bit::S(s, k, !n),
            Bit::F(f) => {
                let m = (1u16 << (1 << f.n)) - 1;
                Bit::F(BFun { n: f.n, vars: f.vars, tt: (!f.tt) & (m as u8) })
            }
            Bit::T => Bit::T,
        }
    }
    fn and(self, o: Bit) -> Bit {
        match (self, o) {
            (Bit::Z, _) | (_, Bit::Z) => Bit::Z,
            (Bit::O, x) | (x, Bit::O) => x,
            _ => bit_apply2(self, o, |x, y| x & y),
        }
    }
    fn or(self, o: Bit) -> Bit {
        match (self, o) {
            (Bit::O, _) | (_, Bit::O) => Bit::O,
            (Bit::Z, x) | (x, Bit::Z) => x,
            _ => bit_apply2(self, o, |x, y| x | y),
        }
    }
    fn xor(self, o: Bit) -> Bit {
        match (self, o) {
            (Bit::Z, x) | (x, Bit::Z) => x,
            (Bit::O, x) | (x, Bit::O) => x.not(),
            _ => bit_apply2(self, o, |x, y| x ^ y),
        }
    }
    fn mux(c: Bit, on: Bit, off: Bit) -> Bit {
        if on == off {
            return on;
        }
        c.and(on).or(c.not().and(off))
    }
    fn is_const(self) -> bool {
        matches!(self, Bit::Z | Bit::O)
    }
}

#[derive(Clone, Debug)]
pub enum Val {
    Unit,
    Int { signed: bool, bits: Vec<Bit> },
    /// unsigned interval, used only for the out-of-range class of an index parameter
    /// value = mul * r + add, where r is interval-valued input `id`; lo/hi are the value's current bounds
    Range { id: u32, lo: u128, hi: u128, w: u16, mul: u128, add: u128 },
    Struct(Vec<Val>),
    Enum { variant: u32, fields: Vec<Val> },
    Array(Vec<Val>),
    Ref(usize, Vec<usize>),
    Str(String),
    Opaque(u32),
    /// reference to an immutable constant (a promoted temporary such as `&S { raw_value: 0 }`)
    ConstRef(Box<Val>),
    Top,
}

fn const_of(bits: &[Bit]) -> Option<u128> {
    let mut v = 0u128;
    for (i, b) in bits.iter().enumerate() {
        match b {
            Bit::Z => {}
            Bit::O => v |= 1u128 << i,
            _ => return None,
        }
    }
    Some(v)
}

fn from_const(v: u128, w: usize) -> Vec<Bit> {
    (0..w).map(|i| if i < 128 && (v >> i) & 1 == 1 { Bit::O } else { Bit::Z }).collect()
}

fn mask(w: usize) -> u128 {
    if w >= 128 {
        u128::MAX
    } else {
        (1u128 << w) - 1
    }
}

fn sext(v: u128, w: usize) -> i128 {
    if w >= 128 {
        v as i128
    } else if (v >> (w - 1)) & 1 == 1 {
        (v | !mask(w)) as i128
    } else {
        v as i128
    }
}

fn top_bits(w: usize) -> Vec<Bit> {
    vec![Bit::T; w]
}

pub fn int_const(v: u128, w: usize, signed: bool) -> Val {
    Val::Int { signed, bits: from_const(v, w) }
}

fn bool_val(b: Bit) -> Val {
    Val::Int { signed: false, bits: vec![b] }
}

/// unsigned [min,max] of a bit vector (unknown bits range over {0,1})
fn urange(bits: &[Bit]) -> (u128, u128) {
    let mut lo = 0u128;
    let mut hi = 0u128;
    for (i, b) in bits.iter().enumerate() {
        match b {
            Bit::Z => {}
            Bit::O => {
                lo |= 1 << i;
                hi |= 1 << i;
            }
            _ => hi |= 1 << i,
        }
    }
    (lo, hi)
}

pub struct Frame<'tcx> {
    pub inst: Instance<'tcx>,
    pub body: &'tcx Body<'tcx>,
    pub base: usize,
    pub bb: BasicBlock,
    pub stmt: usize,
    /// where the caller wants the return value, and where it continues
    pub ret: Option<((usize, Vec<usize>), BasicBlock)>,
}

impl<'tcx> Clone for Frame<'tcx> {
    fn clone(&self) -> Self {
        Frame {
            inst: self.inst,
            body: self.body,
            base: self.base,
            bb: self.bb,
            stmt: self.stmt,
            ret: self.ret.clone(),
        }
    }
}

#[derive(Clone)]
pub struct State<'tcx> {
    pub frames: Vec<Frame<'tcx>>,
    pub cells: Vec<Val>,
    pub syms: Vec<String>,
    pub conds: Vec<String>,
    pub calls: Vec<String>,
    pub mayfail: Vec<String>,
    pub assume: Vec<((u32, u16), bool)>,
    pub ncalls: usize,
    /// the path went through a fork whose condition the analysis could not express (unknown bits):
    /// its outcomes are possibilities, not facts
    pub imprecise: bool,
    /// current bounds of every interval-valued input (refined by branches on comparisons with constants)
    pub ranges: Vec<(u128, u128)>,
    /// predicate symbols: sym id -> (range id, c) meaning "range < c"
    pub preds: Vec<(u32, u32, u128)>,
    /// equality predicates: sym id -> (bits of the compared value, constant): "value == c"
    pub eqpreds: Vec<(u32, Vec<Bit>, u128)>,
}

pub struct Outcome {
    pub json: String,
}

pub struct Interp<'tcx> {
    pub tcx: TyCtxt<'tcx>,
    pub env: TypingEnv<'tcx>,
    /// ADTs whose `raw_value` / `new_with_raw_value` are interpreted inline
    pub home: Vec<DefId>,
    /// entry is a trait-impl method: every call made directly by it stays opaque
    pub opaque_depth0: bool,
    pub outcomes: Vec<Outcome>,
    pub notes: Vec<String>,
    pub undecided: Option<String>,
    pub steps: usize,
    pub param_cells: Vec<(String, usize)>,
    pub inlined: std::collections::BTreeSet<String>,
}

enum PlaceRes {
    At(usize, Vec<usize>),
    /// deref of a `&str` constant or of something that is not a tracked reference
    Pointee(Val),
    /// a place inside an immutable constant reached through a `ConstRef`
    ConstPointee(Val),
    Unknown,
}

pub fn adt_is_uint<'tcx>(tcx: TyCtxt<'tcx>, ty: Ty<'tcx>) -> Option<(Ty<'tcx>, usize)> {
    if let ty::Adt(def, args) = ty.kind() {
        if tcx.crate_name(def.did().krate).as_str() == "arbitrary_int"
            && tcx.item_name(def.did()).as_str() == "UInt"
            && args.len() == 2
        {
            let t = args.type_at(0);
            let n = const_arg_u128(args[1])? as usize;
            return Some((t, n));
        }
    }
    None
}

pub fn const_arg_u128<'tcx>(arg: ty::GenericArg<'tcx>) -> Option<u128> {
    let c = arg.as_const()?;
    let v = c.try_to_value()?;
    let leaf = v.try_to_leaf()?;
    Some(leaf.to_bits_unchecked())
}

pub fn int_width<'tcx>(ty: Ty<'tcx>) -> Option<(usize, bool)> {
    match ty.kind() {
        ty::Bool => Some((1, false)),
        ty::Char => Some((32, false)),
        ty::Int(i) => Some((i.bit_width().unwrap_or(64) as usize, true)),
        ty::Uint(u) => Some((u.bit_width().unwrap_or(64) as usize, false)),
        _ => None,
    }
}

impl<'tcx> Interp<'tcx> {
    pub fn new(tcx: TyCtxt<'tcx>) -> Self {
        Interp {
            tcx,
            env: TypingEnv::fully_monomorphized(),
            home: Vec::new(),
            opaque_depth0: false,
            outcomes: Vec::new(),
            notes: Vec::new(),
            undecided: None,
            steps: 0,
            param_cells: Vec::new(),
            inlined: std::collections::BTreeSet::new(),
        }
    }

    fn mono<T: TypeFoldable<TyCtxt<'tcx>>>(&self, inst: Instance<'tcx>, v: T) -> T {
        inst.instantiate_mir_and_normalize_erasing_regions(self.tcx, self.env, EarlyBinder::bind(v))
    }

    // ---------------------------------------------------------------- values by type

    fn sym(st: &mut State<'tcx>, name: &str) -> u32 {
        if let Some(i) = st.syms.iter().position(|s| s == name) {
            return i as u32;
        }
        st.syms.push(name.to_string());
        (st.syms.len() - 1) as u32
    }

    fn is_local_struct(&self, ty: Ty<'tcx>) -> bool {
        if let ty::Adt(def, _) = ty.kind() {
            def.is_struct() && def.did().is_local()
        } else {
            false
        }
    }

    /// value whose leaves are all unknown, shaped by `ty`
    pub fn top_of(&self, ty: Ty<'tcx>, depth: usize) -> Val {
        if depth > 6 {
            return Val::Top;
        }
        if let Some((w, s)) = int_width(ty) {
            return Val::Int { signed: s, bits: top_bits(w) };
        }
        match ty.kind() {
            ty::Tuple(l) if l.is_empty() => Val::Unit,
            ty::Never => Val::Unit,
            ty::Tuple(l) => Val::Struct(l.iter().map(|t| self.top_of(t, depth + 1)).collect()),
            ty::Adt(def, args) if def.is_struct() && (def.did().is_local() || adt_is_uint(self.tcx, ty).is_some()) => {
                Val::Struct(
                    def.non_enum_variant()
                        .fields
                        .iter()
                        .map(|f| self.top_of(self.tcx.normalize_erasing_regions(self.env, ty::Unnormalized::new(f.ty(self.tcx, args))), depth + 1))
                        .collect(),
                )
            }
            ty::Array(el, len) => match len.try_to_target_usize(self.tcx) {
                Some(n) if n <= 256 => Val::Array((0..n).map(|_| self.top_of(*el, depth + 1)).collect()),
                _ => Val::Top,
            },
            _ => Val::Top,
        }
    }

    /// fully symbolic value of type `ty`; leaves are named after `name`
    pub fn materialize(&self, st: &mut State<'tcx>, ty: Ty<'tcx>, name: &str, depth: usize) -> Val {
        if depth > 6 {
            return Val::Opaque(Self::sym(st, name));
        }
        if let Some((w, s)) = int_width(ty) {
            let id = Self::sym(st, name);
            return Val::Int { signed: s, bits: (0..w).map(|k| Bit::S(id, k as u16, false)).collect() };
        }
        if let Some((inner, n)) = adt_is_uint(self.tcx, ty) {
            if let Some((w, s)) = int_width(inner) {
                let id = Self::sym(st, &format!("{}.0", name));
                let bits = (0..w).map(|k| if k < n { Bit::S(id, k as u16, false) } else { Bit::Z }).collect();
                return Val::Struct(vec![Val::Int { signed: s, bits }]);
            }
        }
        match ty.kind() {
            ty::Tuple(l) if l.is_empty() => Val::Unit,
            ty::Never => Val::Unit,
            ty::Tuple(l) => Val::Struct(
                l.iter().enumerate().map(|(i, t)| self.materialize(st, t, &format!("{}.{}", name, i), depth + 1)).collect(),
            ),
            ty::Adt(def, args) if self.is_local_struct(ty) => {
                let fields: Vec<Ty<'tcx>> = def
                    .non_enum_variant()
                    .fields
                    .iter()
                    .map(|f| self.tcx.normalize_erasing_regions(self.env, ty::Unnormalized::new(f.ty(self.tcx, args))))
                    .collect();
                Val::Struct(
                    fields.iter().enumerate().map(|(i, t)| self.materialize(st, *t, &format!("{}.{}", name, i), depth + 1)).collect(),
                )
            }
            ty::Array(el, len) => match len.try_to_target_usize(self.tcx) {
                Some(n) if n <= 256 => {
                    Val::Array((0..n).map(|i| self.materialize(st, *el, &format!("{}[{}]", name, i), depth + 1)).collect())
                }
                _ => Val::Opaque(Self::sym(st, name)),
            },
            ty::Ref(_, inner, _) => {
                if matches!(inner.kind(), ty::Str | ty::Dynamic(..) | ty::Slice(..)) {
                    return Val::Opaque(Self::sym(st, name));
                }
                let v = self.materialize(st, *inner, name, depth + 1);
                st.cells.push(v);
                Val::Ref(st.cells.len() - 1, Vec::new())
            }
            _ => Val::Opaque(Self::sym(st, name)),
        }
    }

    // ---------------------------------------------------------------- rendering

    fn render_bits(st: &State<'tcx>, bits: &[Bit]) -> String {
        // run-length: "len*src" joined by ','
        let mut out = String::new();
        let mut i = 0;
        while i < bits.len() {
            let mut j = i + 1;
            let desc = match bits[i] {
                Bit::Z => {
                    while j < bits.len() && bits[j] == Bit::Z {
                        j += 1;
                    }
                    "0".to_string()
                }
                Bit::O => {
                    while j < bits.len() && bits[j] == Bit::O {
                        j += 1;
                    }
                    "1".to_string()
                }
                Bit::T => {
                    while j < bits.len() && bits[j] == Bit::T {
                        j += 1;
                    }
                    "T".to_string()
                }
                Bit::S(s, k, n) => {
                    while j < bits.len() && bits[j] == Bit::S(s, k + (j - i) as u16, n) {
                        j += 1;
                    }
                    format!("{}{}@{}", if n { "~" } else { "" }, st.syms[s as usize], k)
                }
                Bit::F(f) => {
                    let vs: Vec<String> =
                        (0..f.n as usize).map(|q| format!("{}@{}", st.syms[f.vars[q].0 as usize], f.vars[q].1)).collect();
                    format!("F[{:02x};{}]", f.tt, vs.join(";"))
                }
            };
            if !out.is_empty() {
                out.push(',');
            }
            out.push_str(&format!("{}*{}", j - i, desc));
            i = j;
        }
        out
    }

    pub fn render(&self, st: &State<'tcx>, v: &Val, depth: usize) -> String {
        if depth > 8 {
            return "{\"t\":1}".to_string();
        }
        match v {
            Val::Unit => "{\"u\":1}".to_string(),
            Val::Int { signed, bits } => obj(&[
                ("w", bits.len().to_string()),
                ("sg", if *signed { "1".into() } else { "0".into() }),
                ("m", esc(&Self::render_bits(st, bits))),
            ]),
            Val::Range { id, w, mul, add, .. } => {
                let (lo, hi) = st.ranges.get(*id as usize).copied().unwrap_or((0, 0));
                obj(&[
                    ("r", arr(&[esc(&lo.to_string()), esc(&hi.to_string())])),
                    ("w", w.to_string()),
                    ("lin", arr(&[esc(&mul.to_string()), esc(&add.to_string())])),
                ])
            }
            Val::Struct(f) => obj(&[("s", arr(&f.iter().map(|x| self.render(st, x, depth + 1)).collect::<Vec<_>>()))]),
            Val::Enum { variant, fields } => obj(&[
                ("v", variant.to_string()),
                ("f", arr(&fields.iter().map(|x| self.render(st, x, depth + 1)).collect::<Vec<_>>())),
            ]),
            Val::Array(f) => obj(&[("a", arr(&f.iter().map(|x| self.render(st, x, depth + 1)).collect::<Vec<_>>()))]),
            Val::Ref(c, p) => {
                let inner = Self::read(st, *c, p);
                obj(&[("ref", self.render(st, &inner, depth + 1))])
            }
            Val::Str(s) => obj(&[("str", esc(s))]),
            Val::ConstRef(inner) => obj(&[("ref", self.render(st, inner, depth + 1))]),
            Val::Opaque(s) => obj(&[("o", esc(&st.syms[*s as usize]))]),
            Val::Top => "{\"t\":1}".to_string(),
        }
    }

    // ---------------------------------------------------------------- memory

    fn read(st: &State<'tcx>, cell: usize, path: &[usize]) -> Val {
        let mut v = &st.cells[cell];
        for &i in path {
            v = match v {
                Val::Struct(f) | Val::Array(f) => match f.get(i) {
                    Some(x) => x,
                    None => return Val::Top,
                },
                Val::Enum { fields, .. } => match fields.get(i) {
                    Some(x) => x,
                    None => return Val::Top,
                },
                _ => return Val::Top,
            };
        }
        v.clone()
    }

    fn write(st: &mut State<'tcx>, cell: usize, path: &[usize], val: Val) -> bool {
        let mut v = &mut st.cells[cell];
        for &i in path {
            v = match v {
                Val::Struct(f) | Val::Array(f) => match f.get_mut(i) {
                    Some(x) => x,
                    None => return false,
                },
                Val::Enum { fields, .. } => match fields.get_mut(i) {
                    Some(x) => x,
                    None => return false,
                },
                _ => return false,
            };
        }
        *v = val;
        true
    }

    fn resolve_place(&self, st: &State<'tcx>, place: &Place<'tcx>) -> PlaceRes {
        let fr = st.frames.last().unwrap();
        let mut cell = fr.base + place.local.as_usize();
        let mut path: Vec<usize> = Vec::new();
        for (ei, elem) in place.projection.iter().enumerate() {
            match elem {
                ProjectionElem::Deref => match Self::read(st, cell, &path) {
                    Val::Ref(c, p) => {
                        cell = c;
                        path = p;
                    }
                    v @ (Val::Str(_) | Val::Opaque(_)) => {
                        // only valid as the last projection
                        return PlaceRes::Pointee(v);
                    }
                    Val::ConstRef(inner) => {
                        // read-only constant: apply the remaining projections to the value itself
                        let mut cur: Val = *inner;
                        for e2 in place.projection.iter().skip(ei + 1) {
                            cur = match (e2, cur) {
                                (ProjectionElem::Field(f, _), Val::Struct(mut fs)) | (ProjectionElem::Field(f, _), Val::Enum { fields: mut fs, .. }) => {
                                    if f.as_usize() < fs.len() {
                                        fs.swap_remove(f.as_usize())
                                    } else {
                                        return PlaceRes::Unknown;
                                    }
                                }
                                (ProjectionElem::ConstantIndex { offset, from_end: false, .. }, Val::Array(mut fs)) => {
                                    if (offset as usize) < fs.len() {
                                        fs.swap_remove(offset as usize)
                                    } else {
                                        return PlaceRes::Unknown;
                                    }
                                }
                                (ProjectionElem::Index(l), Val::Array(mut fs)) => {
                                    let iv = Self::read(st, fr.base + l.as_usize(), &[]);
                                    let i = match iv {
                                        Val::Int { bits, .. } => const_of(&bits),
                                        Val::Range { id, mul, add, .. } => {
                                            let (lo, hi) = st.ranges[id as usize];
                                            if lo == hi { mul.checked_mul(lo).and_then(|x| x.checked_add(add)) } else { None }
                                        }
                                        _ => None,
                                    };
                                    match i {
                                        Some(i) if (i as usize) < fs.len() => fs.swap_remove(i as usize),
                                        _ => return PlaceRes::Unknown,
                                    }
                                }
                                (ProjectionElem::Downcast(..), v) | (ProjectionElem::OpaqueCast(..), v) => v,
                                (ProjectionElem::Deref, Val::ConstRef(b)) => *b,
                                _ => return PlaceRes::Unknown,
                            };
                        }
                        return PlaceRes::ConstPointee(cur);
                    }
                    _ => return PlaceRes::Unknown,
                },
                ProjectionElem::Field(f, _) => path.push(f.as_usize()),
                ProjectionElem::Downcast(..) | ProjectionElem::OpaqueCast(..) => {}
                ProjectionElem::Index(l) => {
                    let iv = Self::read(st, fr.base + l.as_usize(), &[]);
                    match iv {
                        Val::Int { bits, .. } => match const_of(&bits) {
                            Some(i) => path.push(i as usize),
                            None => return PlaceRes::Unknown,
                        },
                        Val::Range { id, mul, add, .. } => {
                            let (lo, hi) = st.ranges[id as usize];
                            match (lo == hi, mul.checked_mul(lo).and_then(|x| x.checked_add(add))) {
                                (true, Some(v)) => path.push(v as usize),
                                _ => return PlaceRes::Unknown,
                            }
                        }
                        _ => return PlaceRes::Unknown,
                    }
                }
                ProjectionElem::ConstantIndex { offset, from_end: false, .. } => path.push(offset as usize),
                _ => return PlaceRes::Unknown,
            }
        }
        PlaceRes::At(cell, path)
    }

    fn read_place(&self, st: &State<'tcx>, place: &Place<'tcx>) -> Val {
        match self.resolve_place(st, place) {
            PlaceRes::At(c, p) => {
                let v = Self::read(st, c, &p);
                if matches!(v, Val::Top) {
                    // shape it by type so later bit operations can still refine
                    let fr = st.frames.last().unwrap();
                    let ty = self.mono(fr.inst, place.ty(&fr.body.local_decls, self.tcx).ty);
                    return self.top_of(ty, 0);
                }
                v
            }
            PlaceRes::Pointee(v) | PlaceRes::ConstPointee(v) => v,
            PlaceRes::Unknown => {
                let fr = st.frames.last().unwrap();
                let ty = self.mono(fr.inst, place.ty(&fr.body.local_decls, self.tcx).ty);
                self.top_of(ty, 0)
            }
        }
    }

    // ---------------------------------------------------------------- constants

    fn decode_scalar(&self, ty: Ty<'tcx>, v: u128) -> Val {
        if let Some((w, s)) = int_width(ty) {
            return Val::Int { signed: s, bits: from_const(v & mask(w), w) };
        }
        match ty.kind() {
            ty::Adt(def, args) if def.is_struct() => {
                // scalar-ABI struct: the single non-ZST field carries the scalar
                let mut out = Vec::new();
                let mut used = false;
                for f in def.non_enum_variant().fields.iter() {
                    let fty = self.tcx.normalize_erasing_regions(self.env, ty::Unnormalized::new(f.ty(self.tcx, args)));
                    let zst = self.tcx.layout_of(self.env.as_query_input(fty)).map(|l| l.is_zst()).unwrap_or(false);
                    if zst {
                        out.push(Val::Unit);
                    } else if !used {
                        used = true;
                        out.push(self.decode_scalar(fty, v));
                    } else {
                        out.push(Val::Top);
                    }
                }
                Val::Struct(out)
            }
            ty::Adt(def, _) if def.is_enum() => {
                // field-less enum constant: find the variant with that discriminant
                for (vi, d) in def.discriminants(self.tcx) {
                    let w = self.tcx.layout_of(self.env.as_query_input(ty)).map(|l| l.size.bits() as usize).unwrap_or(128);
                    if d.val & mask(w) == v & mask(w) && def.variant(vi).fields.is_empty() {
                        return Val::Enum { variant: vi.as_u32(), fields: Vec::new() };
                    }
                }
                Val::Top
            }
            _ => Val::Top,
        }
    }

    fn decode_bytes(&self, ty: Ty<'tcx>, bytes: &[u8], off: usize, depth: usize) -> Val {
        if depth > 6 {
            return Val::Top;
        }
        let Ok(layout) = self.tcx.layout_of(self.env.as_query_input(ty)) else { return Val::Top };
        let size = layout.size.bytes() as usize;
        if off + size > bytes.len() {
            return Val::Top;
        }
        if let Some((w, s)) = int_width(ty) {
            let mut v = 0u128;
            for i in 0..size {
                v |= (bytes[off + i] as u128) << (8 * i);
            }
            return Val::Int { signed: s, bits: from_const(v & mask(w), w) };
        }
        match ty.kind() {
            ty::Tuple(l) if l.is_empty() => Val::Unit,
            ty::Tuple(l) => Val::Struct(
                l.iter()
                    .enumerate()
                    .map(|(i, t)| self.decode_bytes(t, bytes, off + layout.fields.offset(i).bytes() as usize, depth + 1))
                    .collect(),
            ),
            ty::Adt(def, args) if def.is_struct() => Val::Struct(
                def.non_enum_variant()
                    .fields
                    .iter()
                    .enumerate()
                    .map(|(i, f)| {
                        let fty = self.tcx.normalize_erasing_regions(self.env, ty::Unnormalized::new(f.ty(self.tcx, args)));
                        self.decode_bytes(fty, bytes, off + layout.fields.offset(i).bytes() as usize, depth + 1)
                    })
                    .collect(),
            ),
            ty::Adt(def, _) if def.is_enum() && def.variants().iter().all(|v| v.fields.is_empty()) => {
                use rustc_abi::{TagEncoding, Variants};
                match &layout.variants {
                    Variants::Single { index } => Val::Enum { variant: index.as_u32(), fields: Vec::new() },
                    Variants::Multiple { tag, tag_encoding: TagEncoding::Direct, tag_field, .. } => {
                        let toff = off + layout.fields.offset(tag_field.as_usize()).bytes() as usize;
                        let tsz = tag.size(&self.tcx).bytes() as usize;
                        if toff + tsz > bytes.len() {
                            return Val::Top;
                        }
                        let mut v = 0u128;
                        for i in 0..tsz {
                            v |= (bytes[toff + i] as u128) << (8 * i);
                        }
                        for (vi, d) in def.discriminants(self.tcx) {
                            if d.val & mask(tsz * 8) == v {
                                return Val::Enum { variant: vi.as_u32(), fields: Vec::new() };
                            }
                        }
                        Val::Top
                    }
                    _ => Val::Top,
                }
            }
            ty::Array(el, len) => match len.try_to_target_usize(self.tcx) {
                Some(n) if n <= 256 => {
                    let esz = self.tcx.layout_of(self.env.as_query_input(*el)).map(|l| l.size.bytes() as usize).unwrap_or(0);
                    Val::Array((0..n as usize).map(|i| self.decode_bytes(*el, bytes, off + i * esz, depth + 1)).collect())
                }
                _ => Val::Top,
            },
            _ => Val::Top,
        }
    }

    pub fn const_value_to_val(&self, cv: ConstValue, ty: Ty<'tcx>) -> Val {
        match cv {
            ConstValue::Scalar(Scalar::Int(si)) => self.decode_scalar(ty, si.to_bits_unchecked()),
            ConstValue::Scalar(Scalar::Ptr(ptr, _)) => {
                // `&CONST` / promoted temporary: decode the pointee from its allocation
                if let ty::Ref(_, inner, _) = ty.kind() {
                    let (prov, off) = ptr.into_raw_parts();
                    if let GlobalAlloc::Memory(a) = self.tcx.global_alloc(prov.alloc_id()) {
                        let al = a.inner();
                        let bytes = al.inspect_with_uninit_and_ptr_outside_interpreter(0..al.len());
                        let v = self.decode_bytes(*inner, bytes, off.bytes() as usize, 0);
                        return Val::ConstRef(Box::new(v));
                    }
                }
                Val::Top
            }
            ConstValue::ZeroSized => Val::Unit,
            ConstValue::Slice { alloc_id, meta } => {
                // a constant slice of sized elements (`&[(u8, E)]` lookup tables): decode the elements
                if let ty::Ref(_, pointee, _) = ty.kind() {
                    if let ty::Slice(el) = pointee.kind() {
                        if let (GlobalAlloc::Memory(a), Ok(l)) = (self.tcx.global_alloc(alloc_id), self.tcx.layout_of(self.env.as_query_input(*el))) {
                            let al = a.inner();
                            let bytes = al.inspect_with_uninit_and_ptr_outside_interpreter(0..al.len());
                            let esz = l.size.bytes() as usize;
                            if meta <= 4096 {
                                let items: Vec<Val> = (0..meta as usize).map(|i| self.decode_bytes(*el, bytes, i * esz, 0)).collect();
                                return Val::ConstRef(Box::new(Val::Array(items)));
                            }
                        }
                        return Val::Top;
                    }
                }
                if let GlobalAlloc::Memory(a) = self.tcx.global_alloc(alloc_id) {
                    let inner = a.inner();
                    let n = (meta as usize).min(inner.len());
                    let bytes = inner.inspect_with_uninit_and_ptr_outside_interpreter(0..n);
                    return Val::Str(String::from_utf8_lossy(bytes).to_string());
                }
                Val::Top
            }
            ConstValue::Indirect { alloc_id, offset } if matches!(ty.kind(), ty::Ref(..)) => {
                // a (possibly fat) pointer stored in memory: follow its provenance to the pointee
                let ty::Ref(_, pointee, _) = ty.kind() else { return Val::Top };
                let GlobalAlloc::Memory(a) = self.tcx.global_alloc(alloc_id) else { return Val::Top };
                let al = a.inner();
                let off = offset.bytes() as usize;
                let bytes = al.inspect_with_uninit_and_ptr_outside_interpreter(0..al.len());
                let Some(prov) = al.provenance().ptrs().iter().find(|(o, _)| o.bytes() as usize == off).map(|(_, p)| *p) else { return Val::Top };
                if off + 8 > bytes.len() {
                    return Val::Top;
                }
                let rd = |o: usize| -> u128 {
                    let mut v = 0u128;
                    for i in 0..8 {
                        v |= (bytes[o + i] as u128) << (8 * i);
                    }
                    v
                };
                let toff = rd(off) as usize;
                let GlobalAlloc::Memory(ta) = self.tcx.global_alloc(prov.alloc_id()) else { return Val::Top };
                let tal = ta.inner();
                let tbytes = tal.inspect_with_uninit_and_ptr_outside_interpreter(0..tal.len());
                match pointee.kind() {
                    ty::Slice(el) => {
                        if off + 16 > bytes.len() {
                            return Val::Top;
                        }
                        let n = rd(off + 8) as usize;
                        let Ok(l) = self.tcx.layout_of(self.env.as_query_input(*el)) else { return Val::Top };
                        let esz = l.size.bytes() as usize;
                        if n > 4096 {
                            return Val::Top;
                        }
                        let items: Vec<Val> = (0..n).map(|i| self.decode_bytes(*el, tbytes, toff + i * esz, 0)).collect();
                        Val::ConstRef(Box::new(Val::Array(items)))
                    }
                    ty::Str | ty::Dynamic(..) => Val::Top,
                    _ => Val::ConstRef(Box::new(self.decode_bytes(*pointee, tbytes, toff, 0))),
                }
            }
            ConstValue::Indirect { alloc_id, offset } => {
                if let GlobalAlloc::Memory(a) = self.tcx.global_alloc(alloc_id) {
                    let inner = a.inner();
                    let bytes = inner.inspect_with_uninit_and_ptr_outside_interpreter(0..inner.len());
                    return self.decode_bytes(ty, bytes, offset.bytes() as usize, 0);
                }
                Val::Top
            }
        }
    }

    fn eval_const(&self, inst: Instance<'tcx>, c: &Const<'tcx>) -> Val {
        let c = self.mono(inst, *c);
        let ty = c.ty();
        if let ty::FnDef(..) = ty.kind() {
            return Val::Unit;
        }
        match c.eval(self.tcx, self.env, DUMMY_SP) {
            Ok(cv) => self.const_value_to_val(cv, ty),
            Err(_) => self.top_of(ty, 0),
        }
    }

    fn eval_operand(&self, st: &State<'tcx>, op: &Operand<'tcx>) -> Val {
        match op {
            Operand::Copy(p) | Operand::Move(p) => match self.read_place(st, p) {
                Val::Range { id, w, mul, add, .. } => {
                    let (rlo, rhi) = st.ranges[id as usize];
                    let lo = mul.checked_mul(rlo).and_then(|x| x.checked_add(add));
                    let hi = mul.checked_mul(rhi).and_then(|x| x.checked_add(add));
                    match (lo, hi) {
                        (Some(lo), Some(hi)) if hi <= mask(w as usize) => {
                            if lo == hi {
                                Val::Int { signed: false, bits: from_const(lo, w as usize) }
                            } else {
                                Val::Range { id, lo, hi, w, mul, add }
                            }
                        }
                        // the linear form can wrap for part of the interval: not expressible
                        _ => Val::Int { signed: false, bits: top_bits(w as usize) },
                    }
                }
                v => v,
            },
            Operand::Constant(c) => {
                let fr = st.frames.last().unwrap();
                self.eval_const(fr.inst, &c.const_)
            }
            Operand::RuntimeChecks(rc) => {
                // evaluated under the strictest profile, which is how the corpus is compiled
                let b = rc.value(self.tcx.sess);
                bool_val(if b { Bit::O } else { Bit::Z })
            }
        }
    }

    // ---------------------------------------------------------------- integer transfer functions

    fn as_int(&self, v: &Val) -> Option<(bool, Vec<Bit>)> {
        match v {
            Val::Int { signed, bits } => Some((*signed, bits.clone())),
            Val::Range { lo, hi, w, .. } if lo == hi => Some((false, from_const(*lo, *w as usize))),
            _ => None,
        }
    }

    fn val_urange(&self, v: &Val) -> Option<(u128, u128)> {
        match v {
            Val::Int { signed: false, bits } => Some(urange(bits)),
            Val::Int { signed: true, bits } => {
                if bits.last() == Some(&Bit::Z) {
                    Some(urange(bits))
                } else {
                    None
                }
            }
            Val::Range { lo, hi, .. } => Some((*lo, *hi)),
            _ => None,
        }
    }

    fn cmp_eq(a: &[Bit], b: &[Bit]) -> Bit {
        // conjunction of per-bit equalities; exact while at most three input bits are involved
        let mut acc = Bit::O;
        let mut unknown = false;
        for (x, y) in a.iter().zip(b.iter()) {
            let e = x.xor(*y).not();
            if e == Bit::Z {
                return Bit::Z;
            }
            if e == Bit::T {
                unknown = true;
                continue;
            }
            acc = acc.and(e);
            if acc == Bit::Z {
                return Bit::Z;
            }
            if acc == Bit::T {
                unknown = true;
                acc = Bit::O;
            }
        }
        if unknown {
            Bit::T
        } else {
            acc
        }
    }

    fn binop(&self, op: BinOp, l: &Val, r: &Val, lty: Ty<'tcx>) -> Val {
        use BinOp::*;
        let (w, signed) = int_width(lty).unwrap_or((0, false));
        let with_ovf = matches!(op, AddWithOverflow | SubWithOverflow | MulWithOverflow);
        let pack = |bits: Vec<Bit>, ovf: Bit| -> Val {
            let v = Val::Int { signed, bits };
            if with_ovf {
                Val::Struct(vec![v, bool_val(ovf)])
            } else {
                v
            }
        };
        let is_cmp = matches!(op, Eq | Ne | Lt | Le | Gt | Ge);
        if w == 0 {
            return if is_cmp { bool_val(Bit::T) } else { Val::Top };
        }
        // comparisons: try intervals first (covers Range operands)
        if is_cmp {
            let la = self.as_int(l);
            let ra = self.as_int(r);
            if let (Some((_, a)), Some((_, b))) = (&la, &ra) {
                if let (Some(x), Some(y)) = (const_of(a), const_of(b)) {
                    let res = if signed {
                        let (x, y) = (sext(x, w), sext(y, w));
                        match op {
                            Eq => x == y,
                            Ne => x != y,
                            Lt => x < y,
                            Le => x <= y,
                            Gt => x > y,
                            _ => x >= y,
                        }
                    } else {
                        match op {
                            Eq => x == y,
                            Ne => x != y,
                            Lt => x < y,
                            Le => x <= y,
                            Gt => x > y,
                            _ => x >= y,
                        }
                    };
                    return bool_val(if res { Bit::O } else { Bit::Z });
                }
                if matches!(op, Eq | Ne) {
                    let e = Self::cmp_eq(a, b);
                    if e != Bit::T {
                        return bool_val(if matches!(op, Eq) { e } else { e.not() });
                    }
                }
            }
            // signed comparison against zero is a test of the sign bit
            if signed {
                if let (Some((_, a)), Some((_, b))) = (&la, &ra) {
                    let top = |v: &Vec<Bit>| v[v.len() - 1];
                    if const_of(b) == Some(0) {
                        match op {
                            Lt => return bool_val(top(a)),
                            Ge => return bool_val(top(a).not()),
                            _ => {}
                        }
                    }
                    if const_of(a) == Some(0) {
                        match op {
                            Gt => return bool_val(top(b)),
                            Le => return bool_val(top(b).not()),
                            _ => {}
                        }
                    }
                }
            }
            if let (Some((llo, lhi)), Some((rlo, rhi))) = (self.val_urange(l), self.val_urange(r)) {
                let dec = match op {
                    Lt => {
                        if lhi < rlo {
                            Some(true)
                        } else if llo >= rhi {
                            Some(false)
                        } else {
                            None
                        }
                    }
                    Le => {
                        if lhi <= rlo {
                            Some(true)
                        } else if llo > rhi {
                            Some(false)
                        } else {
                            None
                        }
                    }
                    Gt => {
                        if llo > rhi {
                            Some(true)
                        } else if lhi <= rlo {
                            Some(false)
                        } else {
                            None
                        }
                    }
                    Ge => {
                        if llo >= rhi {
                            Some(true)
                        } else if lhi < rlo {
                            Some(false)
                        } else {
                            None
                        }
                    }
                    Eq => {
                        if lhi < rlo || rhi < llo {
                            Some(false)
                        } else {
                            None
                        }
                    }
                    Ne => {
                        if lhi < rlo || rhi < llo {
                            Some(true)
                        } else {
                            None
                        }
                    }
                    _ => None,
                };
                if let Some(d) = dec {
                    return bool_val(if d { Bit::O } else { Bit::Z });
                }
            }
            return bool_val(Bit::T);
        }
        let (Some((_, a)), Some((_, b))) = (self.as_int(l), self.as_int(r)) else {
            return pack(top_bits(w), Bit::T);
        };
        let ca = const_of(&a);
        let cb = const_of(&b);
        match op {
            BitAnd => Val::Int { signed, bits: a.iter().zip(b.iter()).map(|(x, y)| x.and(*y)).collect() },
            BitOr => Val::Int { signed, bits: a.iter().zip(b.iter()).map(|(x, y)| x.or(*y)).collect() },
            BitXor => Val::Int { signed, bits: a.iter().zip(b.iter()).map(|(x, y)| x.xor(*y)).collect() },
            Shl | ShlUnchecked | Shr | ShrUnchecked => {
                let Some(amt) = cb else { return Val::Int { signed, bits: top_bits(w) } };
                let k = (amt as usize) & (w - 1); // MIR semantics: the amount is masked
                let mut out = Vec::with_capacity(w);
                if matches!(op, Shl | ShlUnchecked) {
                    for i in 0..w {
                        out.push(if i < k { Bit::Z } else { a[i - k] });
                    }
                } else {
                    let fill = if signed { a[w - 1] } else { Bit::Z };
                    for i in 0..w {
                        out.push(if i + k < w { a[i + k] } else { fill });
                    }
                }
                Val::Int { signed, bits: out }
            }
            Add | AddUnchecked | AddWithOverflow => {
                if let (Some(x), Some(y)) = (ca, cb) {
                    let (res, ovf) = if signed {
                        let s = sext(x, w).wrapping_add(sext(y, w));
                        let fits = if w >= 128 { sext(x, w).checked_add(sext(y, w)).is_some() } else { s >= -(1i128 << (w - 1)) && s < (1i128 << (w - 1)) };
                        ((s as u128) & mask(w), !fits)
                    } else {
                        let (s, c) = x.overflowing_add(y);
                        if w >= 128 {
                            (s, c)
                        } else {
                            (s & mask(w), s > mask(w))
                        }
                    };
                    return pack(from_const(res, w), if ovf { Bit::O } else { Bit::Z });
                }
                if a.iter().zip(b.iter()).all(|(x, y)| *x == Bit::Z || *y == Bit::Z) {
                    // no position can carry: addition is bitwise or
                    return pack(a.iter().zip(b.iter()).map(|(x, y)| x.or(*y)).collect(), Bit::Z);
                }
                pack(top_bits(w), Bit::T)
            }
            Sub | SubUnchecked | SubWithOverflow => {
                if let (Some(x), Some(y)) = (ca, cb) {
                    let (res, ovf) = if signed {
                        let s = sext(x, w).wrapping_sub(sext(y, w));
                        let fits = if w >= 128 { sext(x, w).checked_sub(sext(y, w)).is_some() } else { s >= -(1i128 << (w - 1)) && s < (1i128 << (w - 1)) };
                        ((s as u128) & mask(w), !fits)
                    } else {
                        (x.wrapping_sub(y) & mask(w), y > x)
                    };
                    return pack(from_const(res, w), if ovf { Bit::O } else { Bit::Z });
                }
                if cb == Some(0) {
                    return pack(a, Bit::Z);
                }
                pack(top_bits(w), Bit::T)
            }
            Mul | MulUnchecked | MulWithOverflow => {
                if let (Some(x), Some(y)) = (ca, cb) {
                    let (res, ovf) = if signed {
                        match sext(x, w).checked_mul(sext(y, w)) {
                            Some(s) => {
                                let fits = w >= 128 || (s >= -(1i128 << (w - 1)) && s < (1i128 << (w - 1)));
                                ((s as u128) & mask(w), !fits)
                            }
                            None => (sext(x, w).wrapping_mul(sext(y, w)) as u128 & mask(w), true),
                        }
                    } else {
                        match x.checked_mul(y) {
                            Some(s) => (s & mask(w), s > mask(w)),
                            None => (x.wrapping_mul(y) & mask(w), true),
                        }
                    };
                    return pack(from_const(res, w), if ovf { Bit::O } else { Bit::Z });
                }
                for (c, other) in [(ca, &b), (cb, &a)] {
                    match c {
                        Some(0) => return pack(from_const(0, w), Bit::Z),
                        Some(1) => return pack(other.clone(), Bit::Z),
                        Some(p) if p.is_power_of_two() && !signed => {
                            let k = p.trailing_zeros() as usize;
                            if k < w {
                                let lost_zero = other[w - k..].iter().all(|x| *x == Bit::Z);
                                let mut out = Vec::with_capacity(w);
                                for i in 0..w {
                                    out.push(if i < k { Bit::Z } else { other[i - k] });
                                }
                                return pack(out, if lost_zero { Bit::Z } else { Bit::T });
                            }
                        }
                        _ => {}
                    }
                }
                pack(top_bits(w), Bit::T)
            }
            Div | Rem => {
                if let (Some(x), Some(y)) = (ca, cb) {
                    if y != 0 && !signed {
                        let res = if matches!(op, Div) { x / y } else { x % y };
                        return Val::Int { signed, bits: from_const(res, w) };
                    }
                }
                Val::Int { signed, bits: top_bits(w) }
            }
            _ => Val::Int { signed, bits: top_bits(w) },
        }
    }

    /// `index * c`, `index + c` on an interval-valued input stay linear forms of it; the overflow flag of the
    /// checked variants becomes a predicate on the input, so the assert that follows splits the interval
    fn range_arith(&self, st: &mut State<'tcx>, op: BinOp, l: &Val, r: &Val, lty: Ty<'tcx>) -> Option<Val> {
        let (w, signed) = int_width(lty)?;
        if signed {
            return None;
        }
        let is_mul = matches!(op, BinOp::Mul | BinOp::MulWithOverflow);
        let is_add = matches!(op, BinOp::Add | BinOp::AddWithOverflow);
        if !is_mul && !is_add {
            return None;
        }
        let with_ovf = matches!(op, BinOp::MulWithOverflow | BinOp::AddWithOverflow);
        let (rg, k) = match (l, r) {
            (Val::Range { .. }, Val::Int { bits, .. }) => (l, const_of(bits)?),
            (Val::Int { bits, .. }, Val::Range { .. }) => (r, const_of(bits)?),
            _ => return None,
        };
        let Val::Range { id, mul, add, .. } = rg else { return None };
        let (nmul, nadd) = if is_mul { (mul.checked_mul(k)?, add.checked_mul(k)?) } else { (*mul, add.checked_add(k)?) };
        if nmul == 0 {
            return None;
        }
        let (rlo, rhi) = st.ranges[*id as usize];
        let m = mask(w);
        let vlo = nmul.checked_mul(rlo).and_then(|x| x.checked_add(nadd));
        let vhi = nmul.checked_mul(rhi).and_then(|x| x.checked_add(nadd));
        let fits_lo = matches!(vlo, Some(v) if v <= m);
        let fits_hi = matches!(vhi, Some(v) if v <= m);
        let value = Val::Range { id: *id, lo: vlo.unwrap_or(0), hi: vhi.unwrap_or(u128::MAX), w: w as u16, mul: nmul, add: nadd };
        if fits_lo && fits_hi {
            return Some(if with_ovf { Val::Struct(vec![value, bool_val(Bit::Z)]) } else { value });
        }
        if !with_ovf {
            return None; // wrapping arithmetic that can wrap: not linear
        }
        if !fits_lo {
            return Some(Val::Struct(vec![Val::Int { signed: false, bits: top_bits(w) }, bool_val(Bit::O)]));
        }
        // overflow iff nmul*r + nadd > m  iff  !(r < t) with t = floor((m - nadd)/nmul) + 1
        if nadd > m {
            return None;
        }
        let t = (m - nadd) / nmul + 1;
        let sym = Self::sym(st, &format!("pred:r{}<{}", id, t));
        if !st.preds.iter().any(|p| p.0 == sym) {
            st.preds.push((sym, *id, t));
        }
        Some(Val::Struct(vec![value, bool_val(Bit::S(sym, 0, true))]))
    }

    fn eval_intrinsic(&self, name: &str, args: &[Val], dty: Ty<'tcx>) -> Option<Val> {
        let (w, signed) = int_width(dty)?;
        let a = match args.first()? {
            Val::Int { bits, .. } => bits.clone(),
            _ => return None,
        };
        let amt = |v: &Val| -> Option<u128> {
            match v {
                Val::Int { bits, .. } => const_of(bits),
                _ => None,
            }
        };
        match name {
            "rotate_left" | "rotate_right" => {
                if a.len() != w {
                    return None;
                }
                let k = (amt(args.get(1)?)? as usize) % w;
                let mut out = vec![Bit::Z; w];
                for i in 0..w {
                    let src = if name == "rotate_left" { (i + w - k) % w } else { (i + k) % w };
                    out[i] = a[src];
                }
                Some(Val::Int { signed, bits: out })
            }
            "unchecked_shl" | "unchecked_shr" => {
                let k = amt(args.get(1)?)? as usize;
                if k >= w || a.len() != w {
                    return None;
                }
                let mut out = Vec::with_capacity(w);
                if name == "unchecked_shl" {
                    for i in 0..w {
                        out.push(if i < k { Bit::Z } else { a[i - k] });
                    }
                } else {
                    let fill = if signed { a[w - 1] } else { Bit::Z };
                    for i in 0..w {
                        out.push(if i + k < w { a[i + k] } else { fill });
                    }
                }
                Some(Val::Int { signed, bits: out })
            }
            "wrapping_add" | "wrapping_sub" | "wrapping_mul" | "unchecked_add" | "unchecked_sub" | "unchecked_mul" => {
                let x = const_of(&a)?;
                let y = amt(args.get(1)?)?;
                let r = match name {
                    "wrapping_add" | "unchecked_add" => x.wrapping_add(y),
                    "wrapping_sub" | "unchecked_sub" => x.wrapping_sub(y),
                    _ => x.wrapping_mul(y),
                };
                Some(Val::Int { signed, bits: from_const(r & mask(w), w) })
            }
            "bswap" => {
                if a.len() != w || w % 8 != 0 {
                    return None;
                }
                let n = w / 8;
                let mut out = vec![Bit::Z; w];
                for b in 0..n {
                    for i in 0..8 {
                        out[b * 8 + i] = a[(n - 1 - b) * 8 + i];
                    }
                }
                Some(Val::Int { signed, bits: out })
            }
            "bitreverse" => {
                if a.len() != w {
                    return None;
                }
                Some(Val::Int { signed, bits: a.iter().rev().copied().collect() })
            }
            _ => None,
        }
    }

    /// little-endian reinterpretation between integers and byte arrays (what to_le_bytes / from_le_bytes
    /// compile to on this target), and between integers of one width
    fn transmute(&self, v: &Val, to: Ty<'tcx>) -> Val {
        let flat: Option<Vec<Bit>> = match v {
            Val::Int { bits, .. } if bits.len() % 8 == 0 => Some(bits.clone()),
            Val::Array(items) => {
                let mut out = Vec::new();
                let mut ok = true;
                for it in items.iter() {
                    match it {
                        Val::Int { bits, .. } if bits.len() == 8 => out.extend(bits.iter().copied()),
                        _ => ok = false,
                    }
                }
                if ok {
                    Some(out)
                } else {
                    None
                }
            }
            _ => None,
        };
        let Some(flat) = flat else { return self.top_of(to, 0) };
        if let Some((w, s)) = int_width(to) {
            if w == flat.len() && !matches!(to.kind(), ty::Bool | ty::Char) {
                return Val::Int { signed: s, bits: flat };
            }
            return self.top_of(to, 0);
        }
        if let ty::Array(el, len) = to.kind() {
            if let (Some((8, es)), Some(n)) = (int_width(*el), len.try_to_target_usize(self.tcx)) {
                if n as usize * 8 == flat.len() {
                    return Val::Array(
                        (0..n as usize).map(|i| Val::Int { signed: es, bits: flat[i * 8..i * 8 + 8].to_vec() }).collect(),
                    );
                }
            }
        }
        self.top_of(to, 0)
    }

    fn cast_int(&self, v: &Val, to: Ty<'tcx>) -> Val {
        let Some((tw, ts)) = int_width(to) else { return self.top_of(to, 0) };
        let Some((ss, bits)) = self.as_int(v) else { return Val::Int { signed: ts, bits: top_bits(tw) } };
        let sw = bits.len();
        let mut out = Vec::with_capacity(tw);
        let fill = if ss && sw > 0 { bits[sw - 1] } else { Bit::Z };
        for i in 0..tw {
            out.push(if i < sw { bits[i] } else { fill });
        }
        Val::Int { signed: ts, bits: out }
    }

    // ---------------------------------------------------------------- rvalues

    fn eval_rvalue(&self, st: &mut State<'tcx>, rv: &Rvalue<'tcx>, dest_ty: Ty<'tcx>) -> Val {
        let inst = st.frames.last().unwrap().inst;
        let body = st.frames.last().unwrap().body;
        match rv {
            Rvalue::Use(op, _) => self.eval_operand(st, op),
            Rvalue::CopyForDeref(p) => self.read_place(st, p),
            Rvalue::Ref(_, _, place) | Rvalue::RawPtr(_, place) => {
                // a reborrow `&*p` is the reference `p` itself
                match self.resolve_place(st, place) {
                    PlaceRes::At(c, p) => Val::Ref(c, p),
                    PlaceRes::Pointee(v) => v,
                    PlaceRes::ConstPointee(v) => Val::ConstRef(Box::new(v)),
                    PlaceRes::Unknown => Val::Top,
                }
            }
            Rvalue::BinaryOp(op, ops) => {
                let l = self.eval_operand(st, &ops.0);
                let r = self.eval_operand(st, &ops.1);
                let lty = self.mono(inst, ops.0.ty(&body.local_decls, self.tcx));
                if let Some(v) = self.range_arith(st, *op, &l, &r, lty) {
                    return v;
                }
                let res = self.binop(*op, &l, &r, lty);
                // an interval compared with a constant it straddles: name the predicate so that the branch
                // consuming it can split the interval exactly
                if let Val::Int { bits, .. } = &res {
                    if bits.len() == 1 && bits[0] == Bit::T {
                        let cst = |v: &Val| match v {
                            Val::Int { bits, .. } => const_of(bits),
                            _ => None,
                        };
                        // normalise "mul*r + add < c" to "r < t", possibly negated
                        let thr = |v: &Val, c: u128| -> Option<(u32, u128)> {
                            if let Val::Range { id, mul, add, .. } = v {
                                if *mul == 0 {
                                    return None;
                                }
                                let t = if c <= *add { 0 } else { (c - *add + *mul - 1) / *mul };
                                return Some((*id, t));
                            }
                            None
                        };
                        let form: Option<(u32, u128, bool)> = match (&l, &r, op) {
                            (x @ Val::Range { .. }, k, BinOp::Lt) => cst(k).and_then(|c| thr(x, c)).map(|(i, t)| (i, t, false)),
                            (x @ Val::Range { .. }, k, BinOp::Le) => cst(k).and_then(|c| c.checked_add(1)).and_then(|c| thr(x, c)).map(|(i, t)| (i, t, false)),
                            (x @ Val::Range { .. }, k, BinOp::Gt) => cst(k).and_then(|c| c.checked_add(1)).and_then(|c| thr(x, c)).map(|(i, t)| (i, t, true)),
                            (x @ Val::Range { .. }, k, BinOp::Ge) => cst(k).and_then(|c| thr(x, c)).map(|(i, t)| (i, t, true)),
                            (k, x @ Val::Range { .. }, BinOp::Lt) => cst(k).and_then(|c| c.checked_add(1)).and_then(|c| thr(x, c)).map(|(i, t)| (i, t, true)),
                            (k, x @ Val::Range { .. }, BinOp::Le) => cst(k).and_then(|c| thr(x, c)).map(|(i, t)| (i, t, true)),
                            (k, x @ Val::Range { .. }, BinOp::Gt) => cst(k).and_then(|c| thr(x, c)).map(|(i, t)| (i, t, false)),
                            (k, x @ Val::Range { .. }, BinOp::Ge) => cst(k).and_then(|c| c.checked_add(1)).and_then(|c| thr(x, c)).map(|(i, t)| (i, t, false)),
                            _ => None,
                        };
                        // "symbolic value == constant" (an if-chain over raw values): name it, so that the branch
                        // can bind the value on its true side
                        if matches!(op, BinOp::Eq | BinOp::Ne) {
                            let pick = |a: &Val, b: &Val| -> Option<(Vec<Bit>, u128)> {
                                if let (Val::Int { bits: x, .. }, Val::Int { bits: y, .. }) = (a, b) {
                                    if let Some(c) = const_of(y) {
                                        if x.iter().all(|q| matches!(q, Bit::Z | Bit::O | Bit::S(..))) && x.iter().any(|q| matches!(q, Bit::S(..))) {
                                            return Some((x.clone(), c));
                                        }
                                    }
                                }
                                None
                            };
                            if let Some((vbits, c)) = pick(&l, &r).or_else(|| pick(&r, &l)) {
                                let rendered = Self::render_bits(st, &vbits);
                                // (the name ends up inside rendered bit maps: keep it free of their separators)
                                let sym = Self::sym(st, &format!("eq:{}=={}", rendered.replace(',', ";").replace('*', "x").replace('@', "#"), c));
                                if !st.eqpreds.iter().any(|p| p.0 == sym) {
                                    st.eqpreds.push((sym, vbits, c));
                                }
                                return bool_val(Bit::S(sym, 0, matches!(op, BinOp::Ne)));
                            }
                        }
                        if let Some((rid, c, neg)) = form {
                            let sym = Self::sym(st, &format!("pred:r{}<{}", rid, c));
                            if !st.preds.iter().any(|p| p.0 == sym) {
                                st.preds.push((sym, rid, c));
                            }
                            return bool_val(Bit::S(sym, 0, neg));
                        }
                    }
                }
                res
            }
            Rvalue::UnaryOp(op, o) => {
                let v = self.eval_operand(st, o);
                match (op, self.as_int(&v)) {
                    (UnOp::Not, Some((s, bits))) => Val::Int { signed: s, bits: bits.iter().map(|b| b.not()).collect() },
                    (UnOp::Neg, Some((s, bits))) => match const_of(&bits) {
                        Some(x) => {
                            let w = bits.len();
                            Val::Int { signed: s, bits: from_const((0u128.wrapping_sub(x)) & mask(w), w) }
                        }
                        None => Val::Int { signed: s, bits: top_bits(bits.len()) },
                    },
                    (UnOp::PtrMetadata, _) => match &v {
                        Val::ConstRef(inner) => match &**inner {
                            Val::Array(items) => Val::Int { signed: false, bits: from_const(items.len() as u128, 64) },
                            _ => self.top_of(dest_ty, 0),
                        },
                        _ => self.top_of(dest_ty, 0),
                    },
                    _ => self.top_of(dest_ty, 0),
                }
            }
            Rvalue::Cast(kind, o, to) => {
                let v = self.eval_operand(st, o);
                let to = self.mono(inst, *to);
                match kind {
                    CastKind::IntToInt => self.cast_int(&v, to),
                    CastKind::PointerCoercion(..) | CastKind::PtrToPtr => v,
                    CastKind::Transmute => self.transmute(&v, to),
                    _ => self.top_of(to, 0),
                }
            }
            Rvalue::Discriminant(p) => {
                let v = self.read_place(st, p);
                let (w, s) = int_width(dest_ty).unwrap_or((64, true));
                match v {
                    Val::Enum { variant, .. } => {
                        let pty = self.mono(inst, p.ty(&body.local_decls, self.tcx).ty);
                        if let ty::Adt(def, _) = pty.kind() {
                            let d = def.discriminant_for_variant(self.tcx, VariantIdx::from_u32(variant));
                            return Val::Int { signed: s, bits: from_const(d.val & mask(w), w) };
                        }
                        Val::Int { signed: s, bits: top_bits(w) }
                    }
                    _ => Val::Int { signed: s, bits: top_bits(w) },
                }
            }
            Rvalue::Aggregate(kind, ops) => {
                let vals: Vec<Val> = ops.iter().map(|o| self.eval_operand(st, o)).collect();
                match &**kind {
                    AggregateKind::Tuple => {
                        if vals.is_empty() {
                            Val::Unit
                        } else {
                            Val::Struct(vals)
                        }
                    }
                    AggregateKind::Array(_) => Val::Array(vals),
                    AggregateKind::Adt(did, variant, _, _, active) => {
                        let def = self.tcx.adt_def(*did);
                        if def.is_enum() {
                            Val::Enum { variant: variant.as_u32(), fields: vals }
                        } else if def.is_struct() && active.is_none() {
                            Val::Struct(vals)
                        } else {
                            Val::Top
                        }
                    }
                    _ => Val::Top,
                }
            }
            Rvalue::Repeat(o, n) => {
                let v = self.eval_operand(st, o);
                let n = self.mono(inst, *n);
                match n.try_to_target_usize(self.tcx) {
                    Some(k) if k <= 256 => Val::Array((0..k).map(|_| v.clone()).collect()),
                    _ => Val::Top,
                }
            }
            _ => self.top_of(dest_ty, 0),
        }
    }

    // ---------------------------------------------------------------- driver loop

    fn push_frame(
        &self,
        st: &mut State<'tcx>,
        inst: Instance<'tcx>,
        body: &'tcx Body<'tcx>,
        args: Vec<Val>,
        ret: Option<((usize, Vec<usize>), BasicBlock)>,
    ) {
        let base = st.cells.len();
        for (i, decl) in body.local_decls.iter().enumerate() {
            if i >= 1 && i <= body.arg_count && i - 1 < args.len() {
                st.cells.push(args[i - 1].clone());
            } else {
                let ty = self.mono(inst, decl.ty);
                st.cells.push(self.top_of(ty, 0));
            }
        }
        st.frames.push(Frame { inst, body, base, bb: START_BLOCK, stmt: 0, ret });
    }

    fn finish(&mut self, st: &State<'tcx>, kind: &str, extra: Vec<(&str, String)>) {
        let mut items: Vec<(&str, String)> = vec![("k", esc(kind))];
        items.extend(extra);
        let cells: Vec<String> = self
            .param_cells
            .iter()
            .map(|(n, c)| format!("{}:{}", esc(n), self.render(st, &st.cells[*c], 0)))
            .collect();
        items.push(("cells", format!("{{{}}}", cells.join(","))));
        items.push(("imp", if st.imprecise { "1".into() } else { "0".into() }));
        items.push(("conds", arr(&st.conds)));
        items.push(("calls", arr(&st.calls)));
        items.push(("mf", arr(&st.mayfail)));
        self.outcomes.push(Outcome { json: obj(&items) });
    }

    fn assert_kind_name(msg: &AssertKind<Operand<'tcx>>) -> String {
        match msg {
            AssertKind::BoundsCheck { .. } => "BoundsCheck".into(),
            AssertKind::Overflow(op, ..) => format!("Overflow({:?})", op),
            AssertKind::OverflowNeg(_) => "OverflowNeg".into(),
            AssertKind::DivisionByZero(_) => "DivisionByZero".into(),
            AssertKind::RemainderByZero(_) => "RemainderByZero".into(),
            _ => "Other".into(),
        }
    }

    fn assumed(st: &State<'tcx>, b: Bit) -> Bit {
        if let Bit::S(s, k, n) = b {
            for ((s2, k2), v) in st.assume.iter() {
                if *s2 == s && *k2 == k {
                    let val = *v != n;
                    return if val { Bit::O } else { Bit::Z };
                }
            }
        }
        b
    }

    fn policy_opaque(&self, callee: DefId) -> bool {
        if !callee.is_local() {
            return false;
        }
        let name = self.tcx.item_name(callee);
        if name.as_str() != "raw_value" && name.as_str() != "new_with_raw_value" {
            return false;
        }
        let Some(impl_did) = self.tcx.impl_of_assoc(callee) else { return false };
        let self_ty = self.tcx.type_of(impl_did).instantiate_identity().skip_norm_wip();
        match self_ty.kind() {
            ty::Adt(def, _) => !self.home.contains(&def.did()),
            _ => false,
        }
    }

    /// While a `Debug::fmt` body is read structurally: which callees stay opaque (their results are named symbols)?
    /// Everything foreign (core::fmt) and every public inherent method (the getters whose results get printed).
    /// Private helpers and methods of private helper traits emitted by the expansion are followed instead.
    fn debug_opaque(&self, callee: DefId) -> bool {
        if !callee.is_local() {
            return true;
        }
        if let Some(impl_did) = self.tcx.impl_of_assoc(callee) {
            let inherent = self.tcx.impl_opt_trait_ref(impl_did).is_none();
            if inherent && self.tcx.visibility(callee).is_public() {
                return true;
            }
            return false;
        }
        false
    }

    /// `m::_::<impl m::S>::f` (an inherent method written inside an anonymous const or a fn body) is `m::S::f`
    fn canonical_callee(&self, callee: DefId, printed: String) -> String {
        if !callee.is_local() || !(printed.contains("::_::") || printed.contains("<impl ")) {
            return printed;
        }
        if let Some(impl_did) = self.tcx.impl_of_assoc(callee) {
            if self.tcx.impl_opt_trait_ref(impl_did).is_none() {
                let self_ty = self.tcx.type_of(impl_did).instantiate_identity().skip_norm_wip();
                if let ty::Adt(def, _) = self_ty.kind() {
                    return format!("{}::{}", self.tcx.def_path_str(def.did()), self.tcx.item_name(callee));
                }
            }
        }
        printed
    }

    pub fn run(&mut self, init: State<'tcx>) {
        let mut work: Vec<State<'tcx>> = vec![init];
        while let Some(mut st) = work.pop() {
            loop {
                if self.undecided.is_some() {
                    return;
                }
                if self.outcomes.len() + work.len() > MAX_PATHS {
                    self.undecided = Some("budget exceeded (paths)".into());
                    return;
                }
                match self.step(&mut st) {
                    Step::Cont => {}
                    Step::Fork(v) => {
                        work.extend(v);
                        break;
                    }
                    Step::End => break,
                }
            }
        }
    }

    /// successors of a block through normal control flow
    fn successors(body: &Body<'tcx>, bb: BasicBlock) -> Vec<BasicBlock> {
        match &body.basic_blocks[bb].terminator().kind {
            TerminatorKind::Goto { target }
            | TerminatorKind::FalseEdge { real_target: target, .. }
            | TerminatorKind::FalseUnwind { real_target: target, .. }
            | TerminatorKind::Drop { target, .. }
            | TerminatorKind::Assert { target, .. } => vec![*target],
            TerminatorKind::SwitchInt { targets, .. } => targets.all_targets().to_vec(),
            TerminatorKind::Call { target: Some(t), .. } => vec![*t],
            _ => Vec::new(),
        }
    }

    fn reach(body: &Body<'tcx>, from: BasicBlock) -> Vec<bool> {
        let mut seen = vec![false; body.basic_blocks.len()];
        let mut stack = vec![from];
        while let Some(b) = stack.pop() {
            if seen[b.as_usize()] {
                continue;
            }
            seen[b.as_usize()] = true;
            stack.extend(Self::successors(body, b));
        }
        seen
    }

    /// first block common to both arms of a two-way branch (the join of an if/else diamond)
    fn find_join(body: &Body<'tcx>, a: BasicBlock, b: BasicBlock) -> Option<BasicBlock> {
        let ra = Self::reach(body, a);
        let rb = Self::reach(body, b);
        let cands: Vec<usize> = (0..ra.len()).filter(|i| ra[*i] && rb[*i]).collect();
        for &c in cands.iter() {
            let rc = Self::reach(body, BasicBlock::from_usize(c));
            if cands.iter().all(|x| rc[*x]) {
                return Some(BasicBlock::from_usize(c));
            }
        }
        None
    }

    /// run one arm deterministically until `join` is reached in the frame at `depth`
    fn run_until(&mut self, mut st: State<'tcx>, depth: usize, join: BasicBlock) -> Option<State<'tcx>> {
        let mut guard = 0;
        loop {
            guard += 1;
            if guard > 20_000 || self.undecided.is_some() {
                return None;
            }
            if st.frames.len() == depth {
                let fr = st.frames.last().unwrap();
                if fr.bb == join && fr.stmt == 0 {
                    return Some(st);
                }
            }
            if st.frames.len() < depth {
                return None;
            }
            match self.step(&mut st) {
                Step::Cont => {}
                _ => return None,
            }
        }
    }

    fn merge_val(a: &Val, b: &Val, c: Bit) -> Val {
        match (a, b) {
            (Val::Int { signed, bits: x }, Val::Int { bits: y, .. }) if x.len() == y.len() => Val::Int {
                signed: *signed,
                bits: x
                    .iter()
                    .zip(y.iter())
                    .map(|(p, q)| Bit::mux(c, *p, *q))
                    .collect(),
            },
            (Val::Struct(x), Val::Struct(y)) if x.len() == y.len() => {
                Val::Struct(x.iter().zip(y.iter()).map(|(p, q)| Self::merge_val(p, q, c)).collect())
            }
            (Val::Array(x), Val::Array(y)) if x.len() == y.len() => {
                Val::Array(x.iter().zip(y.iter()).map(|(p, q)| Self::merge_val(p, q, c)).collect())
            }
            (Val::Enum { variant: v, fields: x }, Val::Enum { variant: w, fields: y }) if v == w && x.len() == y.len() => {
                Val::Enum { variant: *v, fields: x.iter().zip(y.iter()).map(|(p, q)| Self::merge_val(p, q, c)).collect() }
            }
            (Val::Unit, Val::Unit) => Val::Unit,
            (Val::Ref(p, q), Val::Ref(r, s)) if p == r && q == s => a.clone(),
            (Val::Str(p), Val::Str(q)) if p == q => a.clone(),
            (Val::Opaque(p), Val::Opaque(q)) if p == q => a.clone(),
            (Val::Range { id, lo, hi, w, mul, add }, Val::Range { id: i2, lo: l2, hi: h2, w: w2, mul: m2, add: a2 })
                if id == i2 && lo == l2 && hi == h2 && w == w2 && mul == m2 && add == a2 =>
            {
                a.clone()
            }
            _ => Val::Top,
        }
    }

    /// `on` = state of the arm taken when the condition bit is 1
    fn merge_states(on: State<'tcx>, off: State<'tcx>, c: Bit, base: &State<'tcx>) -> Option<State<'tcx>> {
        if on.frames.len() != off.frames.len()
            || on.cells.len() != off.cells.len()
            || on.calls != off.calls
            || on.mayfail != off.mayfail
            || on.syms != off.syms
            || on.ncalls != off.ncalls
            || on.conds.len() != off.conds.len()
        {
            return None;
        }
        for (f, g) in on.frames.iter().zip(off.frames.iter()) {
            if f.bb != g.bb || f.stmt != g.stmt || f.base != g.base {
                return None;
            }
        }
        let mut out = on.clone();
        out.cells = on.cells.iter().zip(off.cells.iter()).map(|(p, q)| Self::merge_val(p, q, c)).collect();
        out.assume = base.assume.clone();
        out.conds = base.conds.clone();
        out.imprecise = on.imprecise || off.imprecise;
        Some(out)
    }

    /// record that bit `b` has value `val` on this path; refine the interval behind a predicate bit.
    /// Returns false if that makes the path infeasible.
    fn apply_assume(st: &mut State<'tcx>, b: Bit, val: bool) -> bool {
        if let Bit::S(s, k, n) = b {
            let truth = val != n; // value of the un-negated symbol
            if let Some(ep) = st.eqpreds.iter().find(|p| p.0 == s).cloned() {
                if truth {
                    for (i, b) in ep.1.iter().enumerate() {
                        let want = (ep.2 >> i) & 1 == 1;
                        match Self::assumed(st, *b) {
                            Bit::Z => {
                                if want {
                                    return false;
                                }
                            }
                            Bit::O => {
                                if !want {
                                    return false;
                                }
                            }
                            Bit::S(s2, k2, n2) => st.assume.push(((s2, k2), want != n2)),
                            _ => {}
                        }
                    }
                    if ep.1.len() < 128 && (ep.2 >> ep.1.len()) != 0 {
                        return false;
                    }
                }
                let shown = Self::render_bits(st, &ep.1);
                if truth {
                    st.conds.push(obj(&[("sw", obj(&[("w", ep.1.len().to_string()), ("sg", "0".into()), ("m", esc(&shown))])), ("eq", esc(&ep.2.to_string()))]));
                } else {
                    st.conds.push(obj(&[("sw", obj(&[("w", ep.1.len().to_string()), ("sg", "0".into()), ("m", esc(&shown))])), ("ne", arr(&[esc(&ep.2.to_string())]))]));
                }
                st.assume.push(((s, k), truth));
                return true;
            }
            if let Some(p) = st.preds.iter().find(|p| p.0 == s).copied() {
                let (lo, hi) = st.ranges[p.1 as usize];
                let (nlo, nhi) = if truth {
                    if p.2 == 0 {
                        return false;
                    }
                    (lo, hi.min(p.2 - 1))
                } else {
                    (lo.max(p.2), hi)
                };
                if nlo > nhi {
                    return false;
                }
                st.ranges[p.1 as usize] = (nlo, nhi);
            }
            st.assume.push(((s, k), truth));
        }
        true
    }

    fn pred_name(st: &State<'tcx>, b: Bit) -> String {
        match b {
            Bit::S(s, _, n) => format!("{}{}", if n { "!" } else { "" }, st.syms[s as usize].replace("pred:r0", "index")),
            _ => "?".into(),
        }
    }

    fn is_pred(st: &State<'tcx>, b: Bit) -> bool {
        matches!(b, Bit::S(s, _, _) if st.preds.iter().any(|p| p.0 == s) || st.eqpreds.iter().any(|p| p.0 == s))
    }

    fn is_eqpred(st: &State<'tcx>, b: Bit) -> bool {
        matches!(b, Bit::S(s, _, _) if st.eqpreds.iter().any(|p| p.0 == s))
    }

    fn goto(st: &mut State<'tcx>, t: BasicBlock) {
        let fr = st.frames.last_mut().unwrap();
        fr.bb = t;
        fr.stmt = 0;
    }

    fn step(&mut self, st: &mut State<'tcx>) -> Step<'tcx> {
        self.steps += 1;
        if self.steps > MAX_STEPS {
            self.undecided = Some("budget exceeded (steps)".into());
            return Step::End;
        }
        let (body, bb, stmt, inst) = {
            let fr = st.frames.last().unwrap();
            (fr.body, fr.bb, fr.stmt, fr.inst)
        };
        let data = &body.basic_blocks[bb];
        if stmt < data.statements.len() {
            st.frames.last_mut().unwrap().stmt += 1;
            match &data.statements[stmt].kind {
                StatementKind::Assign(b) => {
                    let (place, rv) = &**b;
                    let dty = self.mono(inst, place.ty(&body.local_decls, self.tcx).ty);
                    let v = self.eval_rvalue(st, rv, dty);
                    match self.resolve_place(st, place) {
                        PlaceRes::At(c, p) => {
                            if !Self::write(st, c, &p, v) {
                                self.undecided = Some(format!("write to unshaped place {:?}", place));
                                return Step::End;
                            }
                        }
                        _ => {
                            self.undecided = Some(format!("write through unknown place {:?}", place));
                            return Step::End;
                        }
                    }
                }
                StatementKind::SetDiscriminant { place, variant_index } => {
                    if let PlaceRes::At(c, p) = self.resolve_place(st, place) {
                        let cur = Self::read(st, c, &p);
                        let fields = match cur {
                            Val::Enum { fields, .. } => fields,
                            _ => Vec::new(),
                        };
                        Self::write(st, c, &p, Val::Enum { variant: variant_index.as_u32(), fields });
                    }
                }
                _ => {}
            }
            return Step::Cont;
        }
        let term = data.terminator();
        match &term.kind {
            TerminatorKind::Goto { target }
            | TerminatorKind::FalseEdge { real_target: target, .. }
            | TerminatorKind::FalseUnwind { real_target: target, .. }
            | TerminatorKind::Drop { target, .. } => {
                Self::goto(st, *target);
                Step::Cont
            }
            TerminatorKind::Return => {
                let fr = st.frames.pop().unwrap();
                let rv = st.cells[fr.base].clone();
                match fr.ret {
                    None => {
                        let r = self.render(st, &rv, 0);
                        self.finish(st, "ret", vec![("v", r)]);
                        Step::End
                    }
                    Some(((c, p), target)) => {
                        Self::write(st, c, &p, rv);
                        Self::goto(st, target);
                        Step::Cont
                    }
                }
            }
            TerminatorKind::Unreachable => {
                self.finish(st, "unreachable", vec![]);
                Step::End
            }
            TerminatorKind::Assert { cond, expected, msg, target, .. } => {
                let c = self.eval_operand(st, cond);
                let bit = match &c {
                    Val::Int { bits, .. } if bits.len() == 1 => Self::assumed(st, bits[0]),
                    _ => Bit::T,
                };
                let want = if *expected { Bit::O } else { Bit::Z };
                let kind = Self::assert_kind_name(msg);
                let site = format!("{}@{}:bb{}", kind, self.tcx.def_path_str(inst.def_id()), bb.as_usize());
                if bit == want {
                    // decided true
                } else if bit.is_const() {
                    let und = if st.imprecise { "1" } else { "0" };
                    self.finish(st, "panic", vec![("why", esc("assert")), ("what", esc(&site)), ("und", und.into())]);
                    return Step::End;
                } else if Self::is_pred(st, bit) {
                    // an interval straddling the bound: split it; both sides are decided facts about their part
                    let mut fail = st.clone();
                    if Self::apply_assume(&mut fail, bit, !*expected) {
                        fail.conds.push(obj(&[("pred", esc(&Self::pred_name(st, bit))), ("is", (!*expected).to_string())]));
                        let und = if fail.imprecise { "1" } else { "0" };
                        self.finish(&fail, "panic", vec![("why", esc("assert")), ("what", esc(&site)), ("und", und.into())]);
                    }
                    if !Self::apply_assume(st, bit, *expected) {
                        return Step::End;
                    }
                    st.conds.push(obj(&[("pred", esc(&Self::pred_name(st, bit))), ("is", expected.to_string())]));
                } else {
                    // undecided: both outcomes are possible as far as the analysis knows
                    self.finish(st, "panic", vec![("why", esc("assert")), ("what", esc(&site)), ("und", "1".into())]);
                    st.mayfail.push(esc(&site));
                    if bit == Bit::T {
                        st.imprecise = true;
                    }
                    if let Bit::S(s, k, n) = bit {
                        st.assume.push(((s, k), *expected != n));
                    }
                }
                Self::goto(st, *target);
                Step::Cont
            }
            TerminatorKind::SwitchInt { discr, targets } => {
                let d = self.eval_operand(st, discr);
                if let Val::Range { id, mul, add, .. } = &d {
                    // `match index { 0 => .., 1 => .., _ => .. }` on the interval class: a listed value is
                    // reachable iff some r in the interval maps to it; the fall-through iff some r maps to none
                    let (rlo, rhi) = st.ranges[*id as usize];
                    let mut forks = Vec::new();
                    let mut hit: u128 = 0;
                    for (v, t) in targets.iter() {
                        if *mul == 0 || v < *add || (v - *add) % *mul != 0 {
                            continue;
                        }
                        let r = (v - *add) / *mul;
                        if r < rlo || r > rhi {
                            continue;
                        }
                        hit += 1;
                        let mut s2 = st.clone();
                        s2.ranges[*id as usize] = (r, r);
                        s2.conds.push(obj(&[("pred", esc(&format!("index=={}", r))), ("is", "true".into())]));
                        Self::goto(&mut s2, t);
                        forks.push(s2);
                    }
                    let size = (rhi - rlo).saturating_add(1);
                    if hit < size {
                        let mut s2 = st.clone();
                        s2.conds.push(obj(&[("pred", esc("index matches no listed value")), ("is", "true".into())]));
                        Self::goto(&mut s2, targets.otherwise());
                        forks.push(s2);
                    }
                    return Step::Fork(forks);
                }
                let bits: Vec<Bit> = match self.as_int(&d) {
                    Some((_, b)) => b.iter().map(|x| Self::assumed(st, *x)).collect(),
                    None => {
                        // an unknown discriminant: explore every successor
                        let rendered = self.render(st, &d, 0);
                        let mut succ: Vec<(String, BasicBlock)> = targets.iter().map(|(v, t)| (v.to_string(), t)).collect();
                        succ.push(("otherwise".into(), targets.otherwise()));
                        let mut forks = Vec::new();
                        for (label, t) in succ.into_iter() {
                            let mut s2 = st.clone();
                            s2.imprecise = true;
                            s2.conds.push(obj(&[("sw", rendered.clone()), ("case", esc(&label))]));
                            Self::goto(&mut s2, t);
                            forks.push(s2);
                        }
                        return Step::Fork(forks);
                    }
                };
                if let Some(v) = const_of(&bits) {
                    let t = targets.target_for_value(v);
                    Self::goto(st, t);
                    return Step::Cont;
                }
                // a two-way branch on one symbolic bit: try to execute both arms and merge at the join
                if bits.len() == 1 && !Self::is_pred(st, bits[0]) {
                    if let Bit::S(s, k, n) = bits[0] {
                        let t_on = targets.target_for_value(1);
                        let t_off = targets.target_for_value(0);
                        if t_on != t_off {
                            if let Some(join) = Self::find_join(body, t_on, t_off) {
                                let depth = st.frames.len();
                                let save = (self.outcomes.len(), self.notes.len());
                                let mut s_on = st.clone();
                                s_on.assume.push(((s, k), true != n));
                                Self::goto(&mut s_on, t_on);
                                let mut s_off = st.clone();
                                s_off.assume.push(((s, k), false != n));
                                Self::goto(&mut s_off, t_off);
                                let r_on = self.run_until(s_on, depth, join);
                                let r_off = if r_on.is_some() { self.run_until(s_off, depth, join) } else { None };
                                if let (Some(a), Some(b)) = (r_on, r_off) {
                                    if let Some(m) = Self::merge_states(a, b, bits[0], st) {
                                        *st = m;
                                        return Step::Cont;
                                    }
                                }
                                // fall back to plain forking; discard anything the trial runs recorded
                                self.outcomes.truncate(save.0);
                                self.notes.truncate(save.1);
                                if self.undecided.is_some() {
                                    return Step::End;
                                }
                            }
                        }
                    }
                }
                let rendered = self.render(st, &Val::Int { signed: false, bits: bits.clone() }, 0);
                // feasible listed targets: constant bits must agree
                let feasible = |v: u128| -> bool {
                    if bits.len() < 128 && v >> bits.len() != 0 {
                        return false;
                    }
                    bits.iter().enumerate().all(|(i, b)| match b {
                        Bit::Z => (v >> i) & 1 == 0,
                        Bit::O => (v >> i) & 1 == 1,
                        _ => true,
                    })
                };
                let listed: Vec<(u128, BasicBlock)> = targets.iter().filter(|(v, _)| feasible(*v)).collect();
                // is `otherwise` reachable?  count the values the operand can take
                let unknown = bits.iter().filter(|b| !b.is_const()).count();
                let mut otherwise_reachable = true;
                if unknown <= 20 {
                    let possible = 1u128 << unknown;
                    let mut distinct: Vec<u128> = listed.iter().map(|(v, _)| *v).collect();
                    distinct.sort();
                    distinct.dedup();
                    if distinct.len() as u128 == possible {
                        otherwise_reachable = false;
                        self.notes.push(obj(&[
                            ("note", esc("switch_otherwise_unreachable")),
                            ("fn", esc(&self.tcx.def_path_str(inst.def_id()))),
                            ("free_bits", unknown.to_string()),
                            ("listed", distinct.len().to_string()),
                            ("on", rendered.clone()),
                        ]));
                    }
                }
                let has_top = bits.iter().any(|b| matches!(b, Bit::T | Bit::F(_)));
                let mut forks = Vec::new();
                for (v, t) in listed.iter() {
                    let mut s2 = st.clone();
                    s2.imprecise |= has_top;
                    if !(bits.len() == 1 && Self::is_eqpred(st, bits[0])) {
                        s2.conds.push(obj(&[("sw", rendered.clone()), ("eq", esc(&v.to_string()))]));
                    }
                    if bits.len() == 1 && !Self::apply_assume(&mut s2, bits[0], *v == 1) {
                        continue;
                    }
                    Self::goto(&mut s2, *t);
                    forks.push(s2);
                }
                if otherwise_reachable {
                    let mut s2 = st.clone();
                    s2.imprecise |= has_top;
                    let ne: Vec<String> = listed.iter().map(|(v, _)| esc(&v.to_string())).collect();
                    if !(bits.len() == 1 && Self::is_eqpred(st, bits[0])) {
                        s2.conds.push(obj(&[("sw", rendered.clone()), ("ne", arr(&ne))]));
                    }
                    let mut feasible = true;
                    if bits.len() == 1 && listed.len() == 1 {
                        feasible = Self::apply_assume(&mut s2, bits[0], listed[0].0 != 1);
                    }
                    if feasible {
                        Self::goto(&mut s2, targets.otherwise());
                        forks.push(s2);
                    }
                }
                Step::Fork(forks)
            }
            TerminatorKind::Call { func, args, destination, target, .. } => {
                let fty = self.mono(inst, func.ty(&body.local_decls, self.tcx));
                let argv: Vec<Val> = args.iter().map(|a| self.eval_operand(st, &a.node)).collect();
                let dty = self.mono(inst, destination.ty(&body.local_decls, self.tcx).ty);
                let (callee_name, resolved) = match fty.kind() {
                    ty::FnDef(did, gargs) => {
                        let r = Instance::try_resolve(self.tcx, self.env, *did, gargs).ok().flatten();
                        let name = match r {
                            Some(i) => self.canonical_callee(i.def_id(), self.tcx.def_path_str_with_args(i.def_id(), i.args)),
                            None => self.tcx.def_path_str_with_args(*did, gargs),
                        };
                        (name, r)
                    }
                    _ => ("<indirect>".to_string(), None),
                };
                let depth = st.frames.len();
                let rendered_args: Vec<String> = argv.iter().map(|a| self.render(st, a, 0)).collect();
                if target.is_none() {
                    let und = if st.imprecise { "1" } else { "0" };
                    self.finish(
                        st,
                        "panic",
                        vec![("why", esc("call")), ("what", esc(&callee_name)), ("args", arr(&rendered_args)), ("und", und.into())],
                    );
                    return Step::End;
                }
                let target = target.unwrap();
                let mut inline: Option<Instance<'tcx>> = None;
                if let Some(ci) = resolved {
                    if let InstanceKind::Item(cd) = ci.def {
                        if self.tcx.is_mir_available(cd)
                            && depth < MAX_DEPTH
                            && !(self.opaque_depth0 && self.debug_opaque(cd))
                            && !self.policy_opaque(cd)
                            && self.tcx.intrinsic(cd).is_none()
                        {
                            inline = Some(ci);
                        }
                    }
                }
                // a few integer intrinsics are computed exactly instead of being treated as unknown
                if inline.is_none() {
                    if let Some(ci) = resolved {
                        if let Some(intr) = self.tcx.intrinsic(ci.def_id()) {
                            if let Some(v) = self.eval_intrinsic(intr.name.as_str(), &argv, dty) {
                                if let PlaceRes::At(dc, dp) = self.resolve_place(st, destination) {
                                    Self::write(st, dc, &dp, v);
                                    Self::goto(st, target);
                                    return Step::Cont;
                                }
                            }
                        }
                    }
                }
                match self.resolve_place(st, destination) {
                    PlaceRes::At(dc, dp) => {
                        if let Some(ci) = inline {
                            let cbody = self.tcx.instance_mir(ci.def);
                            self.inlined.insert(callee_name.clone());
                            self.push_frame(st, ci, cbody, argv, Some(((dc, dp), target)));
                        } else {
                            let n = st.ncalls;
                            st.ncalls += 1;
                            st.calls.push(obj(&[("n", n.to_string()), ("callee", esc(&callee_name)), ("args", arr(&rendered_args))]));
                            // results of the custom-type conversions (and of calls made by a Debug impl) are named
                            // symbols; any other call that could not be followed yields an unknown value
                            let named = resolved.map(|ci| self.policy_opaque(ci.def_id())).unwrap_or(false) || self.opaque_depth0;
                            let rv = if named { self.materialize(st, dty, &format!("c{}", n), 0) } else { self.top_of(dty, 0) };
                            Self::write(st, dc, &dp, rv);
                            Self::goto(st, target);
                        }
                        Step::Cont
                    }
                    _ => {
                        self.undecided = Some("call destination is not a tracked place".into());
                        Step::End
                    }
                }
            }
            other => {
                self.undecided = Some(format!("unsupported terminator {:?}", std::mem::discriminant(other)));
                Step::End
            }
        }
    }
}

pub enum Step<'tcx> {
    Cont,
    Fork(Vec<State<'tcx>>),
    End,
}

pub fn _unused(_: FieldIdx, _: Local) {}
