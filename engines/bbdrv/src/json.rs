//! Minimal JSON string helpers (the driver has no crate dependencies).

pub fn esc(s: &str) -> String {
    let mut o = String::with_capacity(s.len() + 2);
    o.push('"');
    for c in s.chars() {
        match c {
            '"' => o.push_str("\\\""),
            '\\' => o.push_str("\\\\"),
            '\n' => o.push_str("\\n"),
            '\r' => o.push_str("\\r"),
            '\t' => o.push_str("\\t"),
            c if (c as u32) < 0x20 => o.push_str(&format!("\\u{:04x}", c as u32)),
            c => o.push(c),
        }
    }
    o.push('"');
    o
}

pub fn arr(items: &[String]) -> String {
    let mut o = String::from("[");
    for (i, it) in items.iter().enumerate() {
        if i > 0 {
            o.push(',');
        }
        o.push_str(it);
    }
    o.push(']');
    o
}

pub fn obj(items: &[(&str, String)]) -> String {
    let mut o = String::from("{");
    for (i, (k, v)) in items.iter().enumerate() {
        if i > 0 {
            o.push(',');
        }
        o.push_str(&esc(k));
        o.push(':');
        o.push_str(v);
    }
    o.push('}');
    o
}

pub fn strs(items: &[String]) -> String {
    arr(&items.iter().map(|s| esc(s)).collect::<Vec<_>>())
}
