//! bbdrv: rustc driver that dumps facts about a (macro-expanded, type-checked) crate:
//! abstract-interpretation outcomes of every function, ADT layout / trait facts,
//! evaluated associated constants, API surface, unsafe sites and crate references.
//! It is model-free: what the facts *should* be is decided by /verif/engines/judge.py.
#![feature(rustc_private)]

extern crate rustc_abi;
extern crate rustc_ast;
extern crate rustc_driver;
extern crate rustc_hir;
extern crate rustc_interface;
extern crate rustc_middle;
extern crate rustc_session;
extern crate rustc_span;

mod interp;
mod json;

use interp::{Interp, State, Val};
use json::{arr, esc, obj, strs};
use rustc_driver::{Callbacks, Compilation};
use rustc_hir::def::DefKind;
use rustc_hir::def_id::{DefId, LocalDefId, LOCAL_CRATE};
use rustc_middle::mir::{AggregateKind, Body, Operand, ProjectionElem, Rvalue, StatementKind, TerminatorKind};
use rustc_middle::ty::{self, Instance, Ty, TyCtxt, TypingEnv};
use rustc_span::{ExpnKind, Span};
use std::collections::{BTreeMap, BTreeSet};

struct Cb;

fn macro_chain(span: Span) -> Vec<String> {
    let mut out = Vec::new();
    let mut s = span;
    let mut guard = 0;
    while s.from_expansion() && guard < 16 {
        let d = s.ctxt().outer_expn_data();
        match d.kind {
            ExpnKind::Macro(k, name) => out.push(format!("{:?}:{}", k, name)),
            ExpnKind::Desugaring(k) => out.push(format!("Desugar:{:?}", k)),
            ExpnKind::AstPass(k) => out.push(format!("AstPass:{:?}", k)),
            ExpnKind::Root => out.push("Root".into()),
        }
        s = d.call_site;
        guard += 1;
    }
    out
}

fn root_call_site(span: Span) -> Span {
    let mut s = span;
    let mut guard = 0;
    while s.from_expansion() && guard < 32 {
        s = s.ctxt().outer_expn_data().call_site;
        guard += 1;
    }
    s
}

fn span_line<'tcx>(tcx: TyCtxt<'tcx>, span: Span) -> usize {
    let s = root_call_site(span);
    tcx.sess.source_map().lookup_char_pos(s.lo()).line
}

fn adt_path<'tcx>(tcx: TyCtxt<'tcx>, ty: Ty<'tcx>) -> Option<(String, Vec<String>, DefId)> {
    let ty = match ty.kind() {
        ty::Ref(_, t, _) => *t,
        _ => ty,
    };
    // const generic arguments written as expressions (`Partial<{ !0u8 >> 2 }>`) are evaluated first
    use rustc_middle::ty::TypeVisitableExt;
    let ty = if ty.has_non_region_param() || !format!("{:?}", ty).contains("Unevaluated") {
        ty
    } else {
        tcx.try_normalize_erasing_regions(ty::TypingEnv::fully_monomorphized(), ty::Unnormalized::new(ty)).unwrap_or(ty)
    };
    if let ty::Adt(def, args) = ty.kind() {
        let mut consts = Vec::new();
        for a in args.iter() {
            if let Some(v) = interp::const_arg_u128(a) {
                consts.push(v.to_string());
            }
        }
        return Some((tcx.def_path_str(def.did()), consts, def.did()));
    }
    None
}

fn ty_str<'tcx>(ty: Ty<'tcx>) -> String {
    format!("{}", ty)
}

fn home_set<'tcx>(tcx: TyCtxt<'tcx>, start: DefId) -> Vec<DefId> {
    let mut out = vec![start];
    let mut i = 0;
    while i < out.len() && out.len() < 16 {
        let def = tcx.adt_def(out[i]);
        if def.is_struct() {
            for f in def.non_enum_variant().fields.iter() {
                let fty = tcx.type_of(f.did).instantiate_identity().skip_norm_wip();
                if let ty::Adt(d2, _) = fty.kind() {
                    if d2.did().is_local() && d2.is_struct() && !out.contains(&d2.did()) {
                        out.push(d2.did());
                    }
                }
            }
        }
        i += 1;
    }
    out
}

#[derive(Clone, Debug)]
enum Choice {
    Sym,
    Bool(bool),
    Idx(u128),
    IdxFrom(u128),
    Variant(u32),
    /// a concrete value of a small raw-value parameter (enum conversions over at most 8 bits)
    Concrete(u128),
}

fn param_choices<'tcx>(tcx: TyCtxt<'tcx>, ty: Ty<'tcx>, hint: Option<u128>, is_self: bool) -> Vec<Choice> {
    match ty.kind() {
        ty::Bool => vec![Choice::Bool(false), Choice::Bool(true)],
        ty::Uint(ty::UintTy::Usize) => match hint {
            Some(k) if k <= 512 => {
                let mut v: Vec<Choice> = (0..k).map(Choice::Idx).collect();
                v.push(Choice::IdxFrom(k));
                v
            }
            _ => vec![Choice::IdxFrom(0)],
        },
        ty::Adt(def, _) if is_self && def.is_enum() && def.did().is_local() && def.variants().len() <= 1024 => {
            if def.variants().iter().all(|v| v.fields.is_empty()) && !def.variants().is_empty() {
                def.variants().indices().map(|i| Choice::Variant(i.as_u32())).collect()
            } else {
                vec![Choice::Sym]
            }
        }
        _ => {
            let _ = tcx;
            vec![Choice::Sym]
        }
    }
}

fn analyze_fn<'tcx>(tcx: TyCtxt<'tcx>, ldid: LocalDefId, hints: &BTreeMap<String, u128>) -> String {
    let did = ldid.to_def_id();
    let name = tcx.item_name(did).to_string();
    let path = tcx.def_path_str(did);
    let span = tcx.def_span(did);
    let mut items: Vec<(&str, String)> = vec![
        ("path", esc(&path)),
        ("name", esc(&name)),
        ("line", span_line(tcx, span).to_string()),
        ("macro", strs(&macro_chain(span))),
    ];
    let mut adt_name: Option<String> = None;
    let mut home: Vec<DefId> = Vec::new();
    let mut trait_name: Option<String> = None;
    if let Some(impl_did) = tcx.impl_of_assoc(did) {
        let self_ty = tcx.type_of(impl_did).instantiate_identity().skip_norm_wip();
        if let Some((p, consts, adid)) = adt_path(tcx, self_ty) {
            adt_name = Some(p);
            items.push(("impl_consts", strs(&consts)));
            if adid.is_local() {
                home = home_set(tcx, adid);
            }
        }
        if let Some(tr) = tcx.impl_opt_trait_ref(impl_did) {
            trait_name = Some(tcx.def_path_str(tr.skip_binder().def_id));
        }
    }
    items.push(("adt", adt_name.as_ref().map(|s| esc(s)).unwrap_or("null".into())));
    items.push(("trait", trait_name.as_ref().map(|s| esc(s)).unwrap_or("null".into())));
    items.push(("const", tcx.is_const_fn(did).to_string()));
    items.push(("pub", tcx.visibility(did).is_public().to_string()));
    let generics = tcx.generics_of(did);
    if generics.requires_monomorphization(tcx) {
        items.push(("generic", "true".into()));
        return obj(&items);
    }
    let sig = tcx.fn_sig(did).instantiate_identity().skip_norm_wip().skip_binder();
    let params: Vec<String> = sig.inputs().iter().map(|t| ty_str(*t)).collect();
    items.push(("params", strs(&params)));
    items.push(("ret", esc(&ty_str(sig.output()))));
    if let Some((p, consts, _)) = adt_path(tcx, sig.output()) {
        items.push(("ret_adt", esc(&p)));
        items.push(("ret_consts", strs(&consts)));
    }
    let self_kind = match sig.inputs().first().map(|t| t.kind()) {
        Some(ty::Ref(_, t, m)) if adt_path(tcx, *t).map(|x| Some(x.0) == adt_name).unwrap_or(false) => {
            if m.is_mut() {
                "mut"
            } else {
                "ref"
            }
        }
        Some(ty::Adt(..)) if adt_path(tcx, sig.inputs()[0]).map(|x| Some(x.0) == adt_name).unwrap_or(false) => "val",
        _ => "none",
    };
    items.push(("self_kind", esc(self_kind)));

    if !tcx.is_mir_available(did) {
        items.push(("nomir", "true".into()));
        return obj(&items);
    }
    let inst = Instance::mono(tcx, did);
    let body: &Body<'tcx> = tcx.instance_mir(inst.def);

    // structural facts: which local ADTs this body constructs or whose fields it assigns
    let mut constructs: BTreeSet<String> = BTreeSet::new();
    let mut assigns: BTreeSet<String> = BTreeSet::new();
    let mut crates: BTreeSet<String> = BTreeSet::new();
    let note_ty = |t: Ty<'tcx>, crates: &mut BTreeSet<String>| {
        for ga in t.walk() {
            if let Some(t2) = ga.as_type() {
                match t2.kind() {
                    ty::Adt(d, _) => {
                        crates.insert(tcx.crate_name(d.did().krate).to_string());
                    }
                    ty::FnDef(d, _) => {
                        crates.insert(tcx.crate_name(d.krate).to_string());
                    }
                    _ => {}
                }
            }
        }
    };
    for decl in body.local_decls.iter() {
        note_ty(decl.ty, &mut crates);
    }
    for bbdata in body.basic_blocks.iter() {
        for st in bbdata.statements.iter() {
            if let StatementKind::Assign(b) = &st.kind {
                let (place, rv) = &**b;
                if let Some(ProjectionElem::Field(..)) = place.projection.last() {
                    // type of the base
                    let mut pty = rustc_middle::mir::PlaceTy::from_ty(body.local_decls[place.local].ty);
                    let n = place.projection.len();
                    for e in place.projection.iter().take(n - 1) {
                        pty = pty.projection_ty(tcx, e);
                    }
                    if let ty::Adt(d, _) = pty.ty.kind() {
                        if d.did().is_local() {
                            assigns.insert(tcx.def_path_str(d.did()));
                        }
                    }
                }
                if let Rvalue::Aggregate(k, _) = rv {
                    if let AggregateKind::Adt(d, ..) = &**k {
                        if d.is_local() {
                            constructs.insert(tcx.def_path_str(*d));
                        }
                    }
                }
            }
        }
        if let Some(t) = &bbdata.terminator {
            if let TerminatorKind::Call { func, .. } = &t.kind {
                if let Operand::Constant(c) = func {
                    note_ty(c.const_.ty(), &mut crates);
                }
            }
        }
    }
    items.push(("constructs", strs(&constructs.into_iter().collect::<Vec<_>>())));
    items.push(("assigns_fields_of", strs(&assigns.into_iter().collect::<Vec<_>>())));
    items.push(("crates", strs(&crates.into_iter().collect::<Vec<_>>())));

    // partitions
    let hint_key = match &adt_name {
        Some(a) => format!("{}::{}", a, name),
        None => path.clone(),
    };
    let hint = hints.get(&hint_key).copied();
    let nparams = body.arg_count;
    let mut choice_lists: Vec<Vec<Choice>> = Vec::new();
    let mut first_usize = true;
    for i in 1..=nparams {
        let ty = body.local_decls[rustc_middle::mir::Local::from_usize(i)].ty;
        let h = if matches!(ty.kind(), ty::Uint(ty::UintTy::Usize)) && first_usize {
            first_usize = false;
            hint
        } else {
            None
        };
        choice_lists.push(param_choices(tcx, ty, h, i == 1 && self_kind == "val"));
    }
    let mut combos: Vec<Vec<Choice>> = vec![Vec::new()];
    for cl in choice_lists.iter() {
        let mut next = Vec::new();
        for c in combos.iter() {
            for ch in cl.iter() {
                let mut c2 = c.clone();
                c2.push(ch.clone());
                next.push(c2);
            }
        }
        combos = next;
        if combos.len() > 4096 {
            items.push(("und", esc("too many entry partitions")));
            return obj(&items);
        }
    }
    // conversions *into* a local enum from a raw value of at most 8 bits are additionally analysed for every
    // concrete raw value: exact whatever the control flow looks like (match, if-chain, table, ...)
    if nparams == 1 {
        let pty = body.local_decls[rustc_middle::mir::Local::from_usize(1)].ty;
        let small: Option<usize> = match interp::adt_is_uint(tcx, pty) {
            Some((_, n)) if n <= 8 => Some(n),
            _ => match pty.kind() {
                ty::Uint(ty::UintTy::U8) => Some(8),
                _ => None,
            },
        };
        let self_is_enum = tcx
            .impl_of_assoc(did)
            .map(|i| matches!(tcx.type_of(i).instantiate_identity().skip_norm_wip().kind(), ty::Adt(d, _) if d.is_enum() && d.did().is_local()))
            .unwrap_or(false);
        if let (Some(n), true) = (small, self_is_enum) {
            for v in 0..(1u128 << n) {
                combos.push(vec![Choice::Concrete(v)]);
            }
        }
    }
    let mut runs: Vec<String> = Vec::new();
    for combo in combos.iter() {
        let mut it = Interp::new(tcx);
        it.home = home.clone();
        // a Debug impl is read structurally (its calls are the facts); every other body is interpreted
        it.opaque_depth0 = trait_name.as_deref().map(|t| t.ends_with("fmt::Debug")).unwrap_or(false);
        let mut st = State {
            frames: Vec::new(),
            cells: Vec::new(),
            syms: Vec::new(),
            conds: Vec::new(),
            calls: Vec::new(),
            mayfail: Vec::new(),
            assume: Vec::new(),
            ncalls: 0,
            imprecise: false,
            ranges: Vec::new(),
            preds: Vec::new(),
            eqpreds: Vec::new(),
        };
        let mut args: Vec<Val> = Vec::new();
        let mut part: Vec<(String, String)> = Vec::new();
        for (i, ch) in combo.iter().enumerate() {
            let ty = body.local_decls[rustc_middle::mir::Local::from_usize(i + 1)].ty;
            let pname = format!("p{}", i);
            let v = match ch {
                Choice::Sym => {
                    let v = it.materialize(&mut st, ty, &pname, 0);
                    if let Val::Ref(c, _) = &v {
                        it.param_cells.push((pname.clone(), *c));
                    }
                    v
                }
                Choice::Bool(b) => {
                    part.push((pname.clone(), if *b { "true".into() } else { "false".into() }));
                    interp::int_const(*b as u128, 1, false)
                }
                Choice::Idx(k) => {
                    part.push((pname.clone(), k.to_string()));
                    interp::int_const(*k, 64, false)
                }
                Choice::IdxFrom(k) => {
                    part.push((pname.clone(), format!(">={}", k)));
                    st.ranges.push((*k, u64::MAX as u128));
                    Val::Range { id: (st.ranges.len() - 1) as u32, lo: *k, hi: u64::MAX as u128, w: 64, mul: 1, add: 0 }
                }
                Choice::Variant(v) => {
                    part.push((pname.clone(), format!("variant{}", v)));
                    Val::Enum { variant: *v, fields: Vec::new() }
                }
                Choice::Concrete(v) => {
                    part.push((pname.clone(), format!("={}", v)));
                    match interp::adt_is_uint(tcx, ty) {
                        Some((inner, _)) => {
                            let w = interp::int_width(inner).map(|x| x.0).unwrap_or(8);
                            Val::Struct(vec![interp::int_const(*v, w, false)])
                        }
                        None => interp::int_const(*v, 8, false),
                    }
                }
            };
            args.push(v);
        }
        // push the entry frame
        {
            let base = st.cells.len();
            for (i, decl) in body.local_decls.iter().enumerate() {
                if i >= 1 && i <= nparams {
                    st.cells.push(args[i - 1].clone());
                } else {
                    st.cells.push(it.top_of(decl.ty, 0));
                }
            }
            st.frames.push(interp::Frame { inst, body, base, bb: rustc_middle::mir::START_BLOCK, stmt: 0, ret: None });
        }
        it.run(st);
        let partj = format!(
            "{{{}}}",
            part.iter().map(|(k, v)| format!("{}:{}", esc(k), esc(v))).collect::<Vec<_>>().join(",")
        );
        let outs: Vec<String> = it.outcomes.iter().map(|o| o.json.clone()).collect();
        runs.push(obj(&[
            ("part", partj),
            ("outs", arr(&outs)),
            ("notes", arr(&it.notes)),
            ("und", it.undecided.as_ref().map(|s| esc(s)).unwrap_or("null".into())),
            ("inlined", strs(&it.inlined.iter().cloned().collect::<Vec<_>>())),
            ("steps", it.steps.to_string()),
        ]));
    }
    items.push(("runs", arr(&runs)));
    obj(&items)
}

fn adt_facts<'tcx>(tcx: TyCtxt<'tcx>, ldid: LocalDefId) -> String {
    let did = ldid.to_def_id();
    let def = tcx.adt_def(did);
    let env = TypingEnv::fully_monomorphized();
    let generics = tcx.generics_of(did);
    let span = tcx.def_span(did);
    let mut items: Vec<(&str, String)> = vec![
        ("path", esc(&tcx.def_path_str(did))),
        ("kind", esc(if def.is_struct() { "struct" } else if def.is_enum() { "enum" } else { "union" })),
        ("line", span_line(tcx, span).to_string()),
        ("macro", strs(&macro_chain(span))),
        ("pub", tcx.visibility(did).is_public().to_string()),
        ("repr_c", def.repr().c().to_string()),
    ];
    let has_params = generics.requires_monomorphization(tcx);
    items.push(("generic", has_params.to_string()));
    if !has_params {
        let ty = tcx.type_of(did).instantiate_identity().skip_norm_wip();
        if let Ok(l) = tcx.layout_of(env.as_query_input(ty)) {
            items.push(("size", l.size.bytes().to_string()));
            items.push(("align", l.align.abi.bytes().to_string()));
        }
        items.push(("copy", tcx.type_is_copy_modulo_regions(env, ty).to_string()));
    }
    if def.is_struct() {
        let fields: Vec<String> = def
            .non_enum_variant()
            .fields
            .iter()
            .map(|f| {
                obj(&[
                    ("name", esc(f.name.as_str())),
                    ("ty", esc(&ty_str(tcx.type_of(f.did).instantiate_identity().skip_norm_wip()))),
                    ("pub", f.vis.is_public().to_string()),
                ])
            })
            .collect();
        items.push(("fields", arr(&fields)));
    }
    if def.is_enum() {
        let vars: Vec<String> = def
            .discriminants(tcx)
            .map(|(vi, d)| {
                let v = def.variant(vi);
                obj(&[
                    ("name", esc(v.name.as_str())),
                    ("idx", vi.as_u32().to_string()),
                    ("discr", esc(&d.val.to_string())),
                    ("nfields", v.fields.len().to_string()),
                ])
            })
            .collect();
        items.push(("variants", arr(&vars)));
    }
    // inherent impls: headers and items
    let mut impls: Vec<String> = Vec::new();
    for impl_did in tcx.inherent_impls(did).iter() {
        let self_ty = tcx.type_of(*impl_did).instantiate_identity().skip_norm_wip();
        let consts = adt_path(tcx, self_ty).map(|x| x.1).unwrap_or_default();
        let ispan = tcx.def_span(*impl_did);
        let mut its: Vec<String> = Vec::new();
        for it in tcx.associated_items(*impl_did).in_definition_order() {
            let kind = match tcx.def_kind(it.def_id) {
                DefKind::AssocFn => "fn",
                DefKind::AssocConst { .. } => "const",
                DefKind::AssocTy => "type",
                _ => "other",
            };
            its.push(obj(&[
                ("name", esc(it.name().as_str())),
                ("kind", esc(kind)),
                ("pub", tcx.visibility(it.def_id).is_public().to_string()),
            ]));
        }
        impls.push(obj(&[
            ("consts", strs(&consts)),
            ("generic", tcx.generics_of(*impl_did).requires_monomorphization(tcx).to_string()),
            ("items", arr(&its)),
            ("macro", strs(&macro_chain(ispan))),
        ]));
    }
    items.push(("impls", arr(&impls)));
    obj(&items)
}

fn const_facts<'tcx>(tcx: TyCtxt<'tcx>, ldid: LocalDefId) -> Option<String> {
    let did = ldid.to_def_id();
    let generics = tcx.generics_of(did);
    if generics.requires_monomorphization(tcx) {
        return None;
    }
    let ty = tcx.type_of(did).instantiate_identity().skip_norm_wip();
    let it = Interp::new(tcx);
    let st = State {
        frames: Vec::new(),
        cells: Vec::new(),
        syms: Vec::new(),
        conds: Vec::new(),
        calls: Vec::new(),
        mayfail: Vec::new(),
        assume: Vec::new(),
        ncalls: 0,
        imprecise: false,
        ranges: Vec::new(),
        preds: Vec::new(),
        eqpreds: Vec::new(),
    };
    let val = match tcx.const_eval_poly(did) {
        Ok(cv) => it.render(&st, &it.const_value_to_val(cv, ty), 0),
        Err(_) => "{\"err\":1}".to_string(),
    };
    let adt = tcx
        .impl_of_assoc(did)
        .and_then(|i| adt_path(tcx, tcx.type_of(i).instantiate_identity().skip_norm_wip()))
        .map(|x| x.0);
    let parent_fn = {
        let p = tcx.parent(did);
        if matches!(tcx.def_kind(p), DefKind::AssocFn | DefKind::Fn) {
            Some(tcx.def_path_str(p))
        } else {
            None
        }
    };
    Some(obj(&[
        ("path", esc(&tcx.def_path_str(did))),
        ("name", esc(tcx.item_name(did).as_str())),
        ("adt", adt.map(|s| esc(&s)).unwrap_or("null".into())),
        ("in_fn", parent_fn.map(|s| esc(&s)).unwrap_or("null".into())),
        ("ty", esc(&ty_str(ty))),
        ("pub", tcx.visibility(did).is_public().to_string()),
        ("val", val),
    ]))
}

struct UnsafeFinder<'tcx> {
    tcx: TyCtxt<'tcx>,
    found: Vec<String>,
}

impl<'tcx> rustc_hir::intravisit::Visitor<'tcx> for UnsafeFinder<'tcx> {
    type NestedFilter = rustc_middle::hir::nested_filter::All;
    fn maybe_tcx(&mut self) -> Self::MaybeTyCtxt {
        self.tcx
    }
    fn visit_block(&mut self, b: &'tcx rustc_hir::Block<'tcx>) {
        if let rustc_hir::BlockCheckMode::UnsafeBlock(src) = b.rules {
            self.found.push(obj(&[
                ("what", esc(&format!("unsafe block ({:?})", src))),
                ("line", span_line(self.tcx, b.span).to_string()),
                ("macro", strs(&macro_chain(b.span))),
            ]));
        }
        rustc_hir::intravisit::walk_block(self, b);
    }
    fn visit_item(&mut self, i: &'tcx rustc_hir::Item<'tcx>) {
        match &i.kind {
            rustc_hir::ItemKind::Impl(im) => {
                let is_unsafe = match im.of_trait {
                    Some(tr) => matches!(tr.safety, rustc_hir::Safety::Unsafe),
                    None => false,
                };
                if is_unsafe {
                    self.found.push(obj(&[
                        ("what", esc("unsafe impl")),
                        ("line", span_line(self.tcx, i.span).to_string()),
                        ("macro", strs(&macro_chain(i.span))),
                    ]));
                }
            }
            rustc_hir::ItemKind::Fn { sig, .. } => {
                if sig.header.is_unsafe() {
                    self.found.push(obj(&[
                        ("what", esc("unsafe fn")),
                        ("line", span_line(self.tcx, i.span).to_string()),
                        ("macro", strs(&macro_chain(i.span))),
                    ]));
                }
            }
            _ => {}
        }
        rustc_hir::intravisit::walk_item(self, i);
    }
    fn visit_impl_item(&mut self, i: &'tcx rustc_hir::ImplItem<'tcx>) {
        if let rustc_hir::ImplItemKind::Fn(sig, _) = &i.kind {
            if sig.header.is_unsafe() {
                self.found.push(obj(&[
                    ("what", esc("unsafe fn")),
                    ("line", span_line(self.tcx, i.span).to_string()),
                    ("macro", strs(&macro_chain(i.span))),
                ]));
            }
        }
        rustc_hir::intravisit::walk_impl_item(self, i);
    }
}

impl Callbacks for Cb {
    fn after_analysis<'tcx>(&mut self, _c: &rustc_interface::interface::Compiler, tcx: TyCtxt<'tcx>) -> Compilation {
        let krate = tcx.crate_name(LOCAL_CRATE).to_string();
        let prefixes = std::env::var("BBDRV_CRATES").unwrap_or_else(|_| "pos_".into());
        if !prefixes.split(',').any(|p| !p.is_empty() && krate.starts_with(p)) {
            return Compilation::Continue;
        }
        let Ok(outdir) = std::env::var("BBDRV_OUT") else { return Compilation::Continue };
        if tcx.dcx().has_errors().is_some() {
            return Compilation::Continue;
        }
        let mut hints: BTreeMap<String, u128> = BTreeMap::new();
        if let Ok(hp) = std::env::var("BBDRV_HINTS") {
            let f = format!("{}/{}.hints", hp, krate);
            if let Ok(text) = std::fs::read_to_string(&f) {
                for line in text.lines() {
                    let mut it = line.split_whitespace();
                    if let (Some(k), Some(v)) = (it.next(), it.next()) {
                        if let Ok(n) = v.parse::<u128>() {
                            hints.insert(k.to_string(), n);
                        }
                    }
                }
            }
        }
        let mut fns: Vec<String> = Vec::new();
        let mut consts: Vec<String> = Vec::new();
        let mut adts: Vec<String> = Vec::new();
        let mut errors: Vec<String> = Vec::new();
        for ldid in tcx.hir_body_owners() {
            match tcx.def_kind(ldid) {
                DefKind::Fn | DefKind::AssocFn => {
                    let r = std::panic::catch_unwind(std::panic::AssertUnwindSafe(|| analyze_fn(tcx, ldid, &hints)));
                    match r {
                        Ok(s) => fns.push(s),
                        Err(_) => errors.push(esc(&format!("panic while analysing {}", tcx.def_path_str(ldid.to_def_id())))),
                    }
                }
                DefKind::AssocConst { .. } | DefKind::Const { .. } => {
                    let r = std::panic::catch_unwind(std::panic::AssertUnwindSafe(|| const_facts(tcx, ldid)));
                    match r {
                        Ok(Some(s)) => consts.push(s),
                        Ok(None) => {}
                        Err(_) => errors.push(esc(&format!("panic while evaluating {}", tcx.def_path_str(ldid.to_def_id())))),
                    }
                }
                _ => {}
            }
        }
        for ldid in tcx.hir_crate_items(()).definitions() {
            if matches!(tcx.def_kind(ldid), DefKind::Struct | DefKind::Enum) {
                let r = std::panic::catch_unwind(std::panic::AssertUnwindSafe(|| adt_facts(tcx, ldid)));
                match r {
                    Ok(s) => adts.push(s),
                    Err(_) => errors.push(esc(&format!("panic on adt {}", tcx.def_path_str(ldid.to_def_id())))),
                }
            }
        }
        let mut uf = UnsafeFinder { tcx, found: Vec::new() };
        tcx.hir_walk_toplevel_module(&mut uf);
        // a #![no_std] crate does not load `std` at all
        let no_std = !tcx.crates(()).iter().any(|c| tcx.crate_name(*c).as_str() == "std");
        let extern_crates: Vec<String> = tcx.crates(()).iter().map(|c| tcx.crate_name(*c).to_string()).collect();
        // size and ABI alignment of the native unsigned integers on this target (reference for C06)
        let env0 = TypingEnv::fully_monomorphized();
        let mut prims: Vec<String> = Vec::new();
        for (bits, t) in [(8, tcx.types.u8), (16, tcx.types.u16), (32, tcx.types.u32), (64, tcx.types.u64), (128, tcx.types.u128)] {
            if let Ok(l) = tcx.layout_of(env0.as_query_input(t)) {
                prims.push(format!("{}:[{},{}]", esc(&bits.to_string()), l.size.bytes(), l.align.abi.bytes()));
            }
        }
        let out = obj(&[
            ("crate", esc(&krate)),
            ("prims", format!("{{{}}}", prims.join(","))),
            ("no_std", no_std.to_string()),
            ("extern_crates", strs(&extern_crates)),
            ("fns", arr(&fns)),
            ("consts", arr(&consts)),
            ("adts", arr(&adts)),
            ("unsafe", arr(&uf.found)),
            ("errors", arr(&errors)),
        ]);
        let path = format!("{}/{}.facts.json", outdir, krate);
        std::fs::write(&path, out).expect("bbdrv: cannot write facts");
        Compilation::Continue
    }
}

fn main() {
    // invoked as RUSTC_WORKSPACE_WRAPPER: argv = [bbdrv, rustc, args...]
    let mut args: Vec<String> = std::env::args().collect();
    if args.len() > 1 && (args[1].ends_with("rustc") || args[1].contains("/rustc")) {
        args.remove(1);
    }
    let mut cb = Cb;
    rustc_driver::run_compiler(&args, &mut cb);
}
