#!/usr/bin/env python3
"""Witness corpus generator (DESIGN.md section 4).

Holds a *model* of every witness declaration and renders it to bitbybit attribute syntax.
The model (not the macro's parser) is what the judge's oracle is computed from.
Deterministic; sampled families use the seed."""
import hashlib
import os
import itertools
import json
import random

NATIVE = (8, 16, 32, 64, 128)
SYN = 96  # number of surface-syntax variants of a bit/bits attribute


def storage_of(n):
    for s in NATIVE:
        if n <= s:
            return s
    raise ValueError(n)


def is_native(w):
    return w in NATIVE


def h(*parts):
    return int(hashlib.sha256(repr(parts).encode()).hexdigest()[:12], 16)


# ------------------------------------------------------------------ model


def T_bool():
    return {"k": "bool", "w": 1}


def T_uint(w, qualified=False):
    return {"k": "uint", "w": w, "q": (qualified if qualified in (1, 2) else bool(qualified))}


def T_int(w):
    return {"k": "int", "w": w}


def T_enum(name, w, exh):
    """exh=True: field type is the enum itself; False: Option<enum>"""
    return {"k": "enum" if exh else "optenum", "w": w, "name": name}


def T_nested(name, w):
    return {"k": "nested", "w": w, "name": name}


def field(name, ranges, ty, access="rw", array=None, syn=0, force_list=False, doc=None):
    return {
        "name": name,
        "ranges": [list(r) for r in ranges],
        "ty": ty,
        "access": access,
        "array": array,  # None or {"k": K, "stride": s or None}
        "syn": syn,
        "force_list": force_list,
        "doc": doc,
    }


def fwidth(f):
    return sum(hi - lo + 1 for lo, hi in f["ranges"])


def fstride(f):
    a = f["array"]
    if not a:
        return 0
    return a["stride"] if a["stride"] is not None else fwidth(f)


def fcount(f):
    return f["array"]["k"] if f["array"] else 1


def fpositions(f, i=0):
    """raw bit position of payload bit j of element i (ranges concatenated, first range lowest)"""
    out = []
    for lo, hi in f["ranges"]:
        out.extend(range(lo + i * fstride(f), hi + 1 + i * fstride(f)))
    return out


def ffootprint(f):
    s = set()
    for i in range(fcount(f)):
        s.update(fpositions(f, i))
    return s


def struct(mod, name, base, fields, default=None, debug=False, family="", extra=None):
    d = {
        "kind": "struct",
        "mod": mod,
        "name": name,
        "path": "%s::%s" % (mod.replace("()", ""), name),
        "base": base,
        "storage": storage_of(base),
        "default": default,  # None or {"form": "=", ":" , "const=" , "const:", "value": int}
        "debug": debug,
        "fields": fields,
        "family": family,
        "consts": [],
    }
    if extra:
        d.update(extra)
    return d


def enum(mod, name, bits, variants, exh, repr_=None, family="ENUM", derives=None):
    """variants: list of (name, discr, cfg) with cfg in (None, 'on', 'off')"""
    return {
        "kind": "enum",
        "mod": mod,
        "name": name,
        "path": "%s::%s" % (mod.replace("()", ""), name),
        "bits": bits,
        "variants": [{"name": n, "discr": d, "cfg": c} for (n, d, c) in variants],
        "exh": exh,  # "true" | "false" | "conditional" | None (omitted)
        "repr": repr_,
        "family": family,
        "consts": [],
    }


def self_overlapping(f):
    """does the range list of one element name a bit twice? (outside the C04 guarantee)"""
    p = fpositions(f, 0)
    return len(p) != len(set(p))


def builder_expected(s):
    """oracle for C14: builder() exists iff no bit is writable twice and (default or full cover)"""
    seen = set()
    for f in s["fields"]:
        if "w" not in f["access"]:
            continue
        for i in range(fcount(f)):
            for p in fpositions(f, i):
                if p in seen:
                    return False
                seen.add(p)
    if s["default"] is not None:
        return True
    return len(seen) == s["base"] and all(p < s["base"] for p in seen)


# ------------------------------------------------------------------ rendering


def ty_str(t):
    k = t["k"]
    if k == "bool":
        return "bool"
    if k == "uint":
        if t.get("q") and not is_native(t["w"]):
            return ("::arbitrary_int::u%d" if t.get("q") == 2 else "arbitrary_int::u%d") % t["w"]
        return "u%d" % t["w"]
    if k == "int":
        return "i%d" % t["w"]
    if k == "enum" or k == "nested":
        return t["name"]
    if k == "optenum":
        return (t.get("opt") or "Option") + "<%s>" % t["name"]
    raise ValueError(k)


def imports_of_type(t):
    if t["k"] == "uint" and not is_native(t["w"]) and not t.get("q"):
        return {"u%d" % t["w"]}
    return set()


def attr_str(f):
    """surface syntax of the attribute; `syn` selects among spellings that mean the same thing:
    bit(n) / bits(n..=n); `stride = s` / `stride: s`; the six orders of range, access and stride;
    zero-padded decimal positions (010 is ten); a trailing comma"""
    syn = f["syn"]
    rs = f["ranges"]
    pad = (syn // 24) % 2 == 1

    radix = f.get("radix")  # must-fail witnesses only: the macro reads plain decimal literals

    def num(n):
        if radix == "hex":
            return "0x%x" % n
        if radix == "bin":
            return "0b%s" % bin(n)[2:]
        if radix == "oct":
            return "0o%o" % n
        if radix == "suffix":
            return "%dusize" % n
        if radix == "float":
            return "%d.5" % n
        return ("%03d" % n) if pad else ("%d" % n)

    single = len(rs) == 1 and not f["force_list"]
    if single:
        lo, hi = rs[0]
        if lo == hi and syn % 2 == 0:
            head, rng = "bit", num(lo)
        else:
            head, rng = "bits", "%s..=%s" % (num(lo), num(hi))
    else:
        head = f.get("head") or ("bit" if syn % 19 == 4 else "bits")  # (a range list is accepted under either attribute name)
        items = []
        for n, (lo, hi) in enumerate(rs):
            if lo == hi and (syn + n) % 2 == 0:
                items.append(num(lo))
            else:
                items.append("%s..=%s" % (num(lo), num(hi)))
        rng = "[" + ", ".join(items) + ("," if syn % 11 == 5 else "") + "]"
    acc = f["access"]
    if acc == "rw" and syn % 5 == 1:
        acc = "r, w" if (syn // 5) % 2 == 0 else "w, r"  # two specifiers are the union of both
    stride = None
    if f["array"] and f["array"]["stride"] is not None:
        sep = "=" if (syn // 2) % 2 == 0 else ":"
        stride = "stride %s %s" % (sep, num(f["array"]["stride"])) if sep == "=" else "stride: %s" % num(f["array"]["stride"])
    order = (syn // 4) % 6
    perms = [("r", "a", "s"), ("r", "s", "a"), ("a", "r", "s"), ("s", "r", "a"), ("a", "s", "r"), ("s", "a", "r")]
    parts = []
    for k in perms[order]:
        v = {"r": rng, "a": acc or None, "s": stride}[k]
        if v:
            parts.append(v)
    if syn % 17 == 9 and len(parts) >= 2:
        # the arguments of one field may be spread over several attributes; they accumulate
        cut = 1 + (syn // 17) % (len(parts) - 1)
        return "#[%s(%s)] #[%s(%s)]" % (head, ", ".join(parts[:cut]), head, ", ".join(parts[cut:]))
    if syn % 13 == 7 and len(parts) >= 2:
        body = parts[0] + ",, " + ", ".join(parts[1:])  # an empty top-level argument is accepted and means nothing
    else:
        body = ", ".join(parts)
    if syn % 7 == 3:
        body += ","
    return "#[%s(%s)]" % (head, body)


def field_decl(f, owner=""):
    t = ty_str(f["ty"])
    if f["array"]:
        t = "[%s; %d]" % (t, f["array"]["k"])
    lines = []
    doc = f["doc"] or ["field %s" % f["name"].replace("r#", "")]
    # where the user wrote the documentation: before the bit attribute (usual), after it, both, or as #[doc = ..]
    dv = h("docpos", owner, f["name"]) % 8
    before = ["    /// %s" % d for d in doc]
    if dv == 0:
        lines.append("    %s" % attr_str(f))
        lines += before
    elif dv == 1:
        lines += before
        lines.append("    %s" % attr_str(f))
        lines.append("    /// (continued after the attribute)")
    elif dv == 2:
        lines += ["    #[doc = \"%s\"]" % d for d in doc]
        lines.append("    %s" % attr_str(f))
    elif dv == 3:
        # documentation produced by a macro expression, as register-stamping macros write it
        lines += ["    #[doc = concat!(\"%s\", \" (\", stringify!(%s), \")\")]" % (d, f["name"].replace("r#", "")) for d in doc]
        lines.append("    %s" % attr_str(f))
    else:
        lines += before
        lines.append("    %s" % attr_str(f))
    for a in f.get("fattrs", []):
        lines.insert(0, "    %s" % a)
    lines.append("    %s%s: %s," % (f.get("vis", ""), f["name"], t))
    return lines


def base_ty(n):
    return "u%d" % n


def raw_lit(base, v):
    if is_native(base):
        return "0x%x_u%d" % (v, base)
    return "arbitrary_int::u%d::new(0x%x)" % (base, v)


def render_struct(s):
    args = [base_ty(s["base"])]
    pre = []
    if s["default"] is not None:
        d = s["default"]
        form = d["form"]
        if form.startswith("const"):
            cname = d.get("cname") or "DEF_%s" % s["name"].upper()
            cty = "u%d" % s["storage"]
            pre.append("/// default constant")
            pre.append("pub const %s: %s = 0x%x;" % (cname, cty, d["value"]))
            val = cname
        else:
            val = d.get("lit") or ("0x%x" % d["value"] if d.get("hex", True) else "%d" % d["value"])
        sep = "=" if form.endswith("=") else ":"
        args.append("default %s %s" % (sep, val) if sep == "=" else "default: %s" % val)
    if s["debug"]:
        if s.get("debug_first"):
            args.insert(1, "debug")
        else:
            args.append("debug")
    lines = list(pre)
    lines.append("/// witness %s (%s)" % (s["name"], s["family"]))
    if s["debug"] and h("dbgdoc", s["path"]) % 3 == 0:
        lines.append("/// Debug Status and Control Register (the word Debug in a doc comment is just text)")
    lines.append("#[bitfield(%s)]" % ", ".join(args))
    if s["debug"] and h("dbgdoc", s["path"]) % 3 == 1:
        lines.append("#[doc = \"documentation below the attribute, mentioning Debug and derive(Debug)\"]")
    for a in s.get("attrs", []):
        lines.append(a)
    if not s["fields"] and s.get("unit") in (";", "();"):
        lines.append("%sstruct %s%s" % (s.get("vis", "pub "), s["name"], s["unit"]))  # `struct X;` / `struct X();`
        return lines
    lines.append("%sstruct %s {" % (s.get("vis", "pub "), s["name"]))
    for f in s["fields"]:
        lines.extend(field_decl(f, s["name"]))
    lines.append("}")
    return lines


def stamp_lines(s, lines):
    """the same declaration written the way register-definition crates do it: a `macro_rules!` whose body holds the
    attribute macro invocation, with the struct name, the default, the field names and the simple field types passed
    in as `$x:ident` / `$x:expr` fragments (they reach the proc macro wrapped in invisible groups / with the
    hygiene of the call site)"""
    import re
    params = ["$name:ident"]
    args = [s["name"]]
    body = []
    pre = []
    fi = 0
    fields = {f["name"]: f for f in s["fields"]}
    for l in lines:
        st = l.strip()
        if st.startswith("pub const ") or st.startswith("/// default constant"):
            pre.append(l)
            continue
        m = re.match(r"^(\s*#\[bitfield\(.*?default\s*[=:]\s*)([^,)\]]+)(.*)$", l)
        if m:
            params.append("$dflt:expr")
            args.append(m.group(2).strip())
            body.append(m.group(1) + "$dflt" + m.group(3))
            continue
        m = re.match(r"^(\s*(?:pub(?:\([a-z]+\))? )?struct )(\w+)( \{)$", l)
        if m:
            body.append(m.group(1) + "$name" + m.group(3))
            continue
        m = re.match(r"^(\s*)((?:r#)?\w+): (.+),$", l)
        if m and m.group(2) in fields:
            ty = m.group(3)
            fn_ = "$f%d" % fi
            params.append("%s:ident" % fn_)
            args.append(m.group(2))
            if re.search(r"\bR[XON]\d+\b", ty) and "Option" not in ty and h("crate_path", s["path"], m.group(2)) % 2 == 0:
                # (not inside Option<..>: the pinned macro rebuilds that type from its text, where `$crate` cannot be spelled)
                # helper types of this module spelled the way exported macros spell them: `$crate::path::T`
                ty = re.sub(r"\b(R[XON]\d+)\b", lambda mm: "$crate::%s::%s" % (s["mod"].replace("()", ""), mm.group(1)), ty)
                body.append("%s%s: %s," % (m.group(1), fn_, ty))
                fi += 1
                continue
            mt = re.match(r"^(\[?)(\w+)((?:; \d+\])?)$", ty)
            if mt:
                tn = "$t%d" % fi
                params.append("%s:ident" % tn)
                args.append(mt.group(2))
                ty = mt.group(1) + tn + mt.group(3)
            body.append("%s%s: %s," % (m.group(1), fn_, ty))
            fi += 1
            continue
        body.append(l)
    mname = "stamp_%s" % s["name"].lower()
    out = list(pre)
    out.append("macro_rules! %s {" % mname)
    out.append("    (%s) => {" % ", ".join(params))
    out += ["        " + b for b in body]
    out.append("    };")
    out.append("}")
    out.append("%s!(%s);" % (mname, ", ".join(args)))
    return out


def discr_str(e, v):
    """how the user spelled the discriminant: rustc and the macro must agree on every integer-literal form"""
    d = v["discr"]
    c = h("dl", e["path"], v["name"]) % 9
    if c == 3:
        return "%d" % d
    if c == 4:
        return "0%d" % d if d else "00"          # zero-padded decimal (still decimal in Rust: `010` is ten)
    if c == 5:
        return "0b%s" % bin(d)[2:]
    if c == 6:
        return "0o%o" % d
    if c == 7:
        s = "%d" % d
        return s[0] + "_" + s[1:] if len(s) > 1 else s + "_"
    if c == 8:
        return "0x%X" % d if d < 10 else "0x%s" % ("%x" % d).upper().rjust(len("%x" % d) + 1, "0")
    return "0x%x" % d


def render_enum(e):
    args = ["u%d" % e["bits"]]
    if e["exh"] is not None:
        args.append(("exhaustive: %s" if e.get("legacy_colon") else "exhaustive = %s") % e["exh"])
        if e.get("exh_first", h("exhfirst", e["path"]) % 4 == 0):
            args.reverse()  # the two arguments may come in either order
    lines = ["/// witness enum %s" % e["name"], "#[bitenum(%s)]" % ", ".join(args)]
    if not e.get("no_derives"):
        lines.append("#[derive(Debug, PartialEq, Eq)]")
    if e["repr"]:
        lines.append("#[repr(%s)]" % e["repr"])
    lines.append("pub enum %s {" % e["name"])
    for v in e["variants"]:
        lines.append("    /// variant %s" % v["name"])
        if v["cfg"] == "on":
            lines.append("    #[cfg(all())]")
        elif v["cfg"] == "off":
            lines.append("    #[cfg(any())]")
        elif v["cfg"] == "attr_keep":
            lines.append("    #[cfg_attr(any(), cfg(any()))]")   # predicate false: the inner cfg never applies, variant present
        elif v["cfg"] == "attr_on":
            lines.append("    #[cfg_attr(all(), cfg(all()))]")   # predicate true, condition true: present
        lines.append("    %s = %s," % (v["name"], v["discr_lit"] if "discr_lit" in v else discr_str(e, v)))
    lines.append("}")
    return lines


def imports_of(decl):
    imp = set(decl.get("imports", []))
    if decl["kind"] == "struct":
        if not is_native(decl["base"]):
            imp.add("u%d" % decl["base"])
        for f in decl["fields"]:
            imp |= imports_of_type(f["ty"])
    return imp


class Crate:
    def __init__(self, name, kind="pos"):
        self.name = name
        self.kind = kind
        self.mods = {}  # mod -> list of decls / raw items
        self.order = []
        self.header = None

    def add(self, decl):
        m = decl["mod"]
        if m not in self.mods:
            self.mods[m] = []
            self.order.append(m)
        self.mods[m].append(decl)

    def render(self):
        out = []
        if self.header is not None:
            out += list(self.header)
        elif self.kind == "pos":
            out += ["#![no_std]", "#![deny(missing_docs)]", "#![allow(deprecated)]", "//! generated witness crate %s" % self.name, ""]
        else:
            out += ["#![no_std]", "#![allow(unused)]", "//! generated must-fail crate %s" % self.name, ""]
        decls = []
        for m in self.order:
            imp = set()
            for d in self.mods[m]:
                if not d.get("skip"):
                    imp |= imports_of(d)
            # `a::b` = nested modules; a last segment ending in `()` = the body of a function (items declared locally)
            segs = m.split("::")
            for sg in segs[:-1]:
                out.append("/// module %s" % sg)
                out.append("pub mod %s {" % sg)
            if segs[-1].endswith("()"):
                out.append("/// declarations local to a function body")
                out.append("pub fn %s() {" % segs[-1][:-2])
            else:
                out.append("/// module %s" % segs[-1])
                out.append("pub mod %s {" % segs[-1])
            out.append("    #[allow(unused_imports)]")
            out.append("    use bitbybit::{bitenum, bitfield};")
            if imp:
                out.append("    #[allow(unused_imports)]")
                out.append("    use arbitrary_int::{%s};" % ", ".join(sorted(imp, key=lambda x: int(x[1:]))))
            for d in self.mods[m]:
                if d.get("skip"):
                    d["line0"] = d["line1"] = -1
                    decls.append(d)
                    continue
                if d["kind"] == "struct":
                    lines = render_struct(d)
                    if d.get("via_macro"):
                        lines = stamp_lines(d, lines)
                elif d["kind"] == "enum":
                    lines = render_enum(d)
                else:
                    lines = d["lines"]
                d["line0"] = len(out) + 1
                for l in lines:
                    out.append("    " + l)
                d["line1"] = len(out)
                for c in d.get("consts", []):
                    if c.get("skip"):
                        c["line"] = -1
                        continue
                    out.append("    /// const witness")
                    out.append("    pub const %s: %s = %s;" % (c["name"], c["ty"], c["expr"]))
                    c["line"] = len(out)
                for extra in d.get("post", []):
                    out.append("    " + extra)
                decls.append(d)
            out.extend(["}"] * len(segs))
        return "\n".join(out) + "\n", decls


# ------------------------------------------------------------------ value helpers for const witnesses


def nat_uint_ty(w):
    return T_uint(w)


def natural_ty(w, alt=0):
    """the natural unsigned type for a width; width 1 alternates bool/u1"""
    return T_uint(w)


def lit_of(t, v):
    k = t["k"]
    w = t["w"]
    if k == "bool":
        return "true" if v & 1 else "false"
    if k == "uint":
        if is_native(w):
            return "0x%x_u%d" % (v, w)
        return "arbitrary_int::u%d::new(0x%x)" % (w, v)
    if k == "int":
        sv = v - (1 << w) if v >> (w - 1) else v
        return "(%d_i%d)" % (sv, w)
    raise ValueError(k)


def add_const_witnesses(s, seed, maxn=2):
    """C15: const items that call generated operations; expected values are computed by the judge"""
    rnd = random.Random(h("const", s["path"], seed))
    n = s["base"]
    raw = rnd.getrandbits(n) if n > 0 else 0
    cands = [f for f in s["fields"] if f["ty"]["k"] in ("bool", "uint", "int") and not self_overlapping(f)]
    rnd.shuffle(cands)
    up = s["name"].upper()
    for f in cands[:maxn]:
        fname = f["name"].replace("r#", "")
        idx = rnd.randrange(fcount(f)) if f["array"] else None
        idxs = ("%d" % idx) if idx is not None else ""
        w = fwidth(f)
        if "r" in f["access"]:
            s["consts"].append({
                "name": "K_%s_%s_G" % (up, fname.upper()),
                "ty": ty_str(f["ty"]),
                "expr": "%s::new_with_raw_value(%s).%s(%s)" % (s["name"], raw_lit(n, raw), f["name"], idxs),
                "kind": "get", "field": f["name"], "raw": raw, "idx": idx,
            })
        if "w" in f["access"]:
            v = rnd.getrandbits(w)
            args = (idxs + ", " if idx is not None else "") + lit_of(f["ty"], v)
            s["consts"].append({
                "name": "K_%s_%s_W" % (up, fname.upper()),
                "ty": s["name"],
                "expr": "%s::new_with_raw_value(%s).with_%s(%s)" % (s["name"], raw_lit(n, raw), fname, args),
                "kind": "with", "field": f["name"], "raw": raw, "idx": idx, "value": v,
            })
    s["consts"].append({
        "name": "K_%s_RT" % up, "ty": base_ty(n) if is_native(n) else "arbitrary_int::u%d" % n,
        "expr": "%s::new_with_raw_value(%s).raw_value()" % (s["name"], raw_lit(n, raw)),
        "kind": "roundtrip", "raw": raw,
    })
    if builder_expected(s) and all(f["ty"]["k"] in ("bool", "uint", "int") for f in s["fields"] if "w" in f["access"]):
        chain = []
        vals = []
        for f in s["fields"]:
            if "w" not in f["access"]:
                continue
            w = fwidth(f)
            fname = f["name"].replace("r#", "")
            if f["array"]:
                vs = [rnd.getrandbits(w) for _ in range(fcount(f))]
                chain.append(".with_%s([%s])" % (fname, ", ".join(lit_of(f["ty"], v) for v in vs)))
                vals.append(vs)
            else:
                v = rnd.getrandbits(w)
                chain.append(".with_%s(%s)" % (fname, lit_of(f["ty"], v)))
                vals.append(v)
        s["consts"].append({
            "name": "K_%s_B" % up, "ty": s["name"],
            "expr": "%s::builder()%s.build()" % (s["name"], "".join(chain)),
            "kind": "builder", "values": vals,
        })


# ------------------------------------------------------------------ positive families


def boundary(S, harvested=()):
    b = {0, 1, 2, 7, 8, 9, 15, 16, 17, 31, 32, 33, 63, 64, 65, S - 2, S - 1}
    for t in harvested:
        b |= {t - 1, t, t + 1}
    return sorted(x for x in b if 0 <= x < S)


def fam_cont(tier, harvested, seed):
    """contiguous scalar fields, one struct per (storage, lo)"""
    out = []
    for S in NATIVE:
        full = tier == "thorough" or S <= 64
        los = range(S) if full else boundary(S, harvested)
        for lo in los:
            his = range(lo, S) if full else [x for x in boundary(S, harvested) if x >= lo]
            fields = []
            for hi in his:
                w = hi - lo + 1
                syn = h("cont", S, lo, hi) % SYN
                fields.append(field("f%d_%d" % (lo, hi), [(lo, hi)], T_uint(w, qualified=(syn % 5 == 0)), syn=syn))
                if w == 1:
                    fields.append(field("b%d" % lo, [(lo, hi)], T_bool(), syn=syn + 1))
                if is_native(w):
                    fields.append(field("s%d_%d" % (lo, hi), [(lo, hi)], T_int(w), syn=syn + 2))
            s = struct("cont_u%d" % S, "C%d_%d" % (S, lo), S, fields, family="CONT")
            add_const_witnesses(s, seed, maxn=2)
            out.append(s)
    return out


NON_NATIVE = [n for n in range(1, 128) if n not in NATIVE]


def split_natural(n):
    """split an n-bit base into two disjoint fields covering it"""
    if n == 1:
        return [(0, 0)]
    hlf = n // 2
    return [(0, hlf - 1), (hlf, n - 1)]


def fam_abase(tier, seed):
    out = []
    dense = set(range(1, 17)) | {17, 23, 24, 25, 31, 33, 39, 40, 47, 48, 49, 56, 63, 65, 72, 96, 100, 120, 127}
    for N in NON_NATIVE:
        # (a) overlapping probes: full width, top bit, bottom bit, top-aligned, middle
        fs = [field("full", [(0, N - 1)], T_uint(N), syn=h("ab", N) % SYN)]
        fs.append(field("top", [(N - 1, N - 1)], T_bool(), syn=N))
        fs.append(field("bot", [(0, 0)], T_uint(1), syn=N + 1))
        tw = min(N, 3 + N % 5)
        fs.append(field("hi", [(N - tw, N - 1)], T_uint(tw), syn=N + 2))
        if N >= 4:
            lo = N // 3
            hi = min(N - 2, lo + N // 3)
            fs.append(field("mid", [(lo, hi)], T_uint(hi - lo + 1), syn=N + 3))
        s = struct("abase", "A%d" % N, N, fs, family="ABASE")
        add_const_witnesses(s, seed, maxn=2)
        out.append(s)
        # (b) disjoint full cover -> builder without default
        parts = split_natural(N)
        fs = [field("p%d" % i, [r], T_uint(r[1] - r[0] + 1), syn=N + i) for i, r in enumerate(parts)]
        s = struct("abase", "AB%d" % N, N, fs, family="ABASE")
        add_const_witnesses(s, seed, maxn=1)
        out.append(s)
        # (c) default + gap + array at the top when it fits
        fs = []
        if N >= 4:
            fs.append(field("lowbit", [(0, 0)], T_bool(), syn=N))
            k = 2
            w = max(1, (N - 2) // 4)
            lo_arr = N - k * w
            fs.append(field("arr", [(lo_arr, lo_arr + w - 1)], T_uint(w), array={"k": k, "stride": None}, syn=N + 1))
            dv = h("abdef", N) & ((1 << N) - 1)
            s = struct("abase", "AD%d" % N, N, fs, default={"form": "=", "value": dv}, family="ABASE")
            add_const_witnesses(s, seed, maxn=1)
            out.append(s)
        # (d) range lists that end at the top bit: adjacent pieces, a descending pair, and a list naming bits twice
        # (legal; its accessors are outside C04, but nothing may reach above bit N-1)
        if N >= 6 and (N in (6, 7, 9, 12, 15, 17, 24, 31, 33, 48, 63, 65, 70, 100, 127) or tier == "thorough"):
            fs = [field("adj", [(N - 4, N - 3), (N - 2, N - 1)], T_uint(4), syn=N),
                  field("desc", [(N - 2, N - 1), (N - 6, N - 3)], T_uint(6), syn=N + 5),
                  field("twice", [(N - 6, N - 3), (N - 4, N - 1)], T_uint(8), syn=N + 9),
                  field("low", [(0, 0)], T_bool())]
            s = struct("abase", "AS%d" % N, N, fs, family="ABASE", default=({"form": "=", "value": 1} if N % 2 else None))
            out.append(s)
        if tier == "thorough" and N in dense:
            for lo in range(N):
                fs = []
                for hi in range(lo, N):
                    w = hi - lo + 1
                    fs.append(field("f%d_%d" % (lo, hi), [(lo, hi)], T_uint(w), syn=h("abd", N, lo, hi) % SYN))
                    if w == 1:
                        fs.append(field("b%d" % lo, [(lo, hi)], T_bool(), syn=h("abdb", N, lo) % SYN))
                    if is_native(w):
                        fs.append(field("s%d_%d" % (lo, hi), [(lo, hi)], T_int(w), syn=h("abds", N, lo, hi) % SYN))
                out.append(struct("abase_dense", "AX%d_%d" % (N, lo), N, fs, family="ABASE"))
    return out


ZOO_QUICK = [8, 16, 32, 64, 128, 7, 9, 12, 17, 24, 33, 48, 65, 100, 127]


def fam_zoo(tier, seed):
    """the same rich layout on every base class: signed / non-contiguous / array / custom fields that
    touch the top bit of the declared base (where storage padding begins on arbitrary-int bases)"""
    out = []
    mod = "zoo"
    x2 = mk_enum(mod, "ZX2", 2, [0, 1, 2, 3], family="ZOO")
    o3 = mk_enum(mod, "ZO3", 3, [1, 6], family="ZOO")
    x8 = mk_enum(mod, "ZX8", 8, list(range(256)), family="ZOO")
    in3 = struct(mod, "ZIn3", 3, [field("a", [(0, 0)], T_bool()), field("b", [(1, 2)], T_uint(2))], family="ZOO")
    in8 = struct(mod, "ZIn8", 8, [field("a", [(0, 7)], T_uint(8))], family="ZOO")
    out += [x2, o3, x8, in3, in8]
    bases = ZOO_QUICK if tier == "quick" else list(range(1, 129))
    for N in bases:
        top = N - 1
        fs = []
        n = [0]

        def add(prefix, ranges, ty, array=None):
            n[0] += 1
            fs.append(field("%s%d" % (prefix, n[0]), ranges, ty, array=array, syn=h("zoo", N, n[0]) % SYN))

        for w in NATIVE:
            if w > N:
                continue
            places = sorted({0, N - w, (N - w) // 2})
            for lo in places:
                add("s", [(lo, lo + w - 1)], T_int(w))
                add("u", [(lo, lo + w - 1)], T_uint(w))
        for w in sorted({1, 2, 3, 5, 7, N - 1, N}):
            if 1 <= w <= N and not is_native(w):
                add("a", [(N - w, top)], T_uint(w))
        add("bt", [(top, top)], T_bool())
        add("bb", [(0, 0)], T_bool())
        if N >= 4:
            add("nf", [(N - 2, top), (0, 1)], T_uint(4))      # top-touching range first
            add("nl", [(0, 1), (N - 2, top)], T_uint(4))      # ... last
        if N >= 5:
            add("nm", [(0, 0), (top, top), (2, 2)], T_uint(3))  # ... in the middle
        if N >= 8:
            add("nsf", [(N - 4, top), (0, 3)], T_int(8))
            add("nsl", [(0, 3), (N - 4, top)], T_int(8))
            add("nuf", [(N - 4, top), (0, 3)], T_uint(8))
        if N >= 16:
            add("ns16", [(N - 8, top), (0, 7)], T_int(16))
            add("ns16m", [(0, 3), (N - 8, top), (4, 7)], T_int(16))
        # arrays whose last element ends at the top bit
        if N >= 2:
            add("ab", [(N - 2, N - 2)], T_bool(), array={"k": 2, "stride": None})
            add("au1", [(N - 2, N - 2)], T_uint(1), array={"k": 2, "stride": 1})
        if N >= 4:
            add("au2", [(N - 4, N - 3)], T_uint(2), array={"k": 2, "stride": None})
            add("anc", [(N - 4, N - 4), (N - 2, N - 2)], T_uint(2), array={"k": 2, "stride": 1})
        if N >= 7:
            add("au3", [(N - 7, N - 5)], T_uint(3), array={"k": 2, "stride": 4})
        if N >= 16:
            add("as8", [(N - 16, N - 9)], T_int(8), array={"k": 2, "stride": None})
            add("au8", [(N - 16, N - 9)], T_uint(8), array={"k": 2, "stride": 8})
            add("ancs", [(N - 12, N - 9), (N - 16, N - 13)], T_int(8), array={"k": 2, "stride": 8})
        if N >= 32:
            add("as16", [(N - 32, N - 17)], T_int(16), array={"k": 2, "stride": 16})
        # arrays that tile the whole base (the "byte view" shape and its relatives)
        for w in (1, 2, 3, 4, 5, 8, 12, 16, 32, 64):
            if N % w == 0 and 2 <= N // w <= 128 and N // w * w == N:
                K = N // w
                if w == 1:
                    add("tb", [(0, 0)], T_bool(), array={"k": K, "stride": None})
                add("tu", [(0, w - 1)], T_uint(w), array={"k": K, "stride": w if K % 2 else None})
                if is_native(w):
                    add("ts", [(0, w - 1)], T_int(w), array={"k": K, "stride": None})
        # custom types at the top
        if N >= 2:
            add("cx", [(N - 2, top)], T_enum("ZX2", 2, True))
        if N >= 3:
            add("co", [(N - 3, top)], T_enum("ZO3", 3, False))
            add("cn", [(N - 3, top)], T_nested("ZIn3", 3))
            add("cnc", [(top, top), (0, 0)], T_enum("ZX2", 2, True))
        if N >= 8:
            add("cx8", [(N - 8, top)], T_enum("ZX8", 8, True))
            add("cn8", [(N - 8, top)], T_nested("ZIn8", 8))
            add("cx8n", [(N - 4, top), (0, 3)], T_enum("ZX8", 8, True))
        if N >= 6:
            add("cax", [(N - 4, N - 3)], T_enum("ZX2", 2, True), array={"k": 2, "stride": None})
        for c in range(0, len(fs), 32):
            s = struct(mod, "Z%da%d" % (N, c // 32), N, fs[c:c + 32], family="ZOO")
            add_const_witnesses(s, seed, maxn=2)
            out.append(s)
        # builder variants: disjoint complete cover with a signed / non-contiguous / array part at the top
        if N >= 10:
            b = [field("low", [(0, N - 9)], T_uint(N - 8)), field("sign", [(N - 8, top)], T_int(8))]
            s = struct(mod, "Z%db" % N, N, b, family="ZOO")
            add_const_witnesses(s, seed, maxn=1)
            out.append(s)
            b = [field("mix", [(N - 4, top), (0, 3)], T_int(8)), field("mid", [(4, N - 5)], T_uint(N - 8))]
            dv = h("zoodef", N) & ((1 << N) - 1)
            s = struct(mod, "Z%dc" % N, N, b, default={"form": "=", "value": dv}, family="ZOO")
            add_const_witnesses(s, seed, maxn=1)
            out.append(s)
        if N >= 4:
            b = [field("lowb", [(0, N - 3)], T_uint(N - 2)), field("flags", [(N - 2, N - 2)], T_bool(), array={"k": 2, "stride": None})]
            s = struct(mod, "Z%dd" % N, N, b, family="ZOO")
            add_const_witnesses(s, seed, maxn=1)
            out.append(s)
    return out


def arr_elem_types(w):
    ts = [T_uint(w)]
    if w == 1:
        ts.append(T_bool())
    if is_native(w):
        ts.append(T_int(w))
    return ts


def fam_arr(tier, harvested, seed):
    out = []
    # S = 8 (and 16 in thorough): every (lo, w, stride, K) that fits
    exhaustive_S = [8] if tier == "quick" else [8, 16]
    for S in exhaustive_S:
        for w in range(1, S // 2 + 1):
            for lo in range(0, S):
                fs = []
                for stride in range(w, S):
                    for K in range(2, S + 1):
                        if lo + (K - 1) * stride + w > S:
                            break
                        for t in arr_elem_types(w):
                            nm = "a%s_%d_%d" % (t["k"][0], stride, K)
                            st = None if (stride == w and (K + lo) % 2 == 0) else stride
                            fs.append(field(nm, [(lo, lo + w - 1)], t, array={"k": K, "stride": st}, syn=h("arr", S, w, lo, stride, K) % SYN))
                if fs:
                    # keep structs moderate in size
                    for c in range(0, len(fs), 40):
                        s = struct("arr_u%d" % S, "R%d_%d_%d_%d" % (S, w, lo, c // 40), S, fs[c:c + 40], family="ARR")
                        add_const_witnesses(s, seed, maxn=1)
                        out.append(s)
    # larger storages: boundary grid
    for S in (16, 32, 64, 128):
        if S in exhaustive_S:
            continue
        widths = [1, 2, 3, 5, 8, 16, 32, 64]
        los = sorted({0, 1, 7, 8, S // 2 - 1, S // 2}) if tier == "quick" else boundary(S, harvested)
        n = 0
        for w in widths:
            if w * 2 > S:
                continue
            for lo in los:
                fs = []
                strides = sorted({w, w + 1, 2 * w, max(w, (S - lo) // 2)})
                for stride in strides:
                    if stride < w:
                        continue
                    kmax = (S - lo - w) // stride + 1
                    for K in sorted({2, 3, kmax}):
                        if K < 2 or K > kmax:
                            continue
                        for t in arr_elem_types(w):
                            nm = "a%s_%d_%d" % (t["k"][0], stride, K)
                            st = None if (stride == w and K % 2 == 0) else stride
                            fs.append(field(nm, [(lo, lo + w - 1)], t, array={"k": K, "stride": st}, syn=h("arrL", S, w, lo, stride, K) % SYN))
                if fs:
                    s = struct("arr_u%d" % S, "R%d_%d_%d" % (S, w, lo), S, fs, family="ARR")
                    add_const_witnesses(s, seed, maxn=1)
                    out.append(s)
                    n += 1
    return out


def disjoint_range_lists_8(k):
    """all ordered k-tuples of pairwise disjoint ranges on 8 bits"""
    ranges = [(lo, hi) for lo in range(8) for hi in range(lo, 8)]
    res = []

    def rec(cur, used):
        if len(cur) == k:
            res.append(list(cur))
            return
        for r in ranges:
            bits = set(range(r[0], r[1] + 1))
            if bits & used:
                continue
            cur.append(r)
            rec(cur, used | bits)
            cur.pop()

    rec([], set())
    return res


def nc_type_for(w, variant=0):
    if w == 1 and variant % 2 == 1:
        return T_bool()  # not allowed for multi-range; caller avoids
    if is_native(w) and variant % 3 == 2:
        return T_int(w)
    return T_uint(w)


def random_disjoint_list(rnd, S, nranges, total_w=None):
    """random ordered list of pairwise-disjoint ranges within S bits"""
    for _ in range(200):
        used = set()
        out = []
        ok = True
        for _ in range(nranges):
            lo = rnd.randrange(S)
            w = rnd.choice([1, 1, 2, 3, 4, 5, 8, 13, 16])
            hi = min(S - 1, lo + w - 1)
            bits = set(range(lo, hi + 1))
            if bits & used:
                ok = False
                break
            used |= bits
            out.append((lo, hi))
        if ok and len(out) == nranges:
            tw = sum(b - a + 1 for a, b in out)
            if tw <= 128:
                return out
    return None


def fam_nc(tier, seed):
    out = []
    rnd = random.Random(h("nc", seed))
    # curated shapes
    cur = []
    cur.append(struct("nc_cur", "BitRev8", 8, [field("rev", [(7 - i, 7 - i) for i in range(8)], T_uint(8), syn=1)], family="NC"))
    cur.append(struct("nc_cur", "BitRev8s", 8, [field("rev", [(7 - i, 7 - i) for i in range(8)], T_int(8), syn=0)], family="NC"))
    cur.append(struct("nc_cur", "ByteSwap32", 32, [field("sw", [(24, 31), (16, 23), (8, 15), (0, 7)], T_uint(32), syn=2)], family="NC"))
    cur.append(struct("nc_cur", "ByteSwap64s", 64, [field("sw", [(56 - 8 * i, 63 - 8 * i) for i in range(8)], T_int(64), syn=3)], family="NC"))
    cur.append(struct("nc_cur", "Swap128", 128, [field("sw", [(64, 127), (0, 63)], T_uint(128), syn=4),
                                                   field("hi1", [(127, 127), (0, 0)], T_uint(2), syn=5),
                                                   field("span", [(1, 64), (65, 126)], T_uint(126), syn=6)], family="NC"))
    # RISC-V style immediates (README shape)
    cur.append(struct("nc_cur", "Riscv", 32, [
        field("imm_b", [(8, 11), (25, 30), (7, 7), (31, 31)], T_uint(12), syn=7),
        field("imm_j", [(21, 30), (20, 20), (12, 19), (31, 31)], T_uint(20), syn=8),
        field("opcode", [(0, 6)], T_uint(7), syn=9),
    ], family="NC"))
    cur.append(struct("nc_cur", "TopTouch16", 16, [field("t", [(15, 15), (0, 6)], T_uint(8), syn=10),
                                                     field("ts", [(8, 15), (0, 7)], T_int(16), syn=11)], family="NC"))
    cur.append(struct("nc_cur", "Single", 16, [field("one", [(3, 5)], T_uint(3), force_list=True, syn=1),
                                                 field("bit", [(4, 4)], T_uint(1), force_list=True, syn=0),
                                                 field("bit2", [(9, 9)], T_uint(1), force_list=True, syn=1)], family="NC"))
    # arrays of non-contiguous fields, incl. interleaving elements
    cur.append(struct("nc_cur", "Inter8", 8, [field("il", [(0, 0), (4, 4)], T_uint(2), array={"k": 4, "stride": 1}, syn=2)], family="NC"))
    cur.append(struct("nc_cur", "Even64", 64, [field("ev", [(0, 0), (2, 2), (4, 4), (6, 6)], T_uint(4), array={"k": 8, "stride": 8}, syn=3),
                                                 field("od", [(7, 7), (5, 5), (3, 3), (1, 1)], T_uint(4), array={"k": 8, "stride": 8}, syn=4)], family="NC"))
    cur.append(struct("nc_cur", "NcArr32", 32, [field("x", [(0, 1), (8, 9)], T_uint(4), array={"k": 3, "stride": 2}, syn=5),
                                                  field("y", [(16, 19), (24, 27)], T_int(8), array={"k": 2, "stride": 4}, syn=6)], family="NC"))
    cur.append(struct("nc_cur", "NcArr128", 128, [field("z", [(0, 7), (64, 71)], T_uint(16), array={"k": 7, "stride": 8}, syn=7),
                                                    field("t", [(127 - 3, 127 - 3), (0, 0)], T_uint(2), array={"k": 4, "stride": 1}, syn=8)], family="NC"))
    for s in cur:
        add_const_witnesses(s, seed, maxn=2)
    out += cur
    # all ordered pairs (thorough: triples too) of disjoint ranges on 8 bits
    lists = disjoint_range_lists_8(2)
    if tier == "thorough":
        lists += disjoint_range_lists_8(3)
    fs = []
    for n, rl in enumerate(lists):
        w = sum(b - a + 1 for a, b in rl)
        t = T_int(8) if (w == 8 and n % 2 == 0) else T_uint(w)
        fs.append(field("l%d" % n, rl, t, syn=h("nc8", n) % SYN))
    for c in range(0, len(fs), 30):
        s = struct("nc_u8", "N8_%d" % (c // 30), 8, fs[c:c + 30], family="NC")
        add_const_witnesses(s, seed, maxn=1)
        out.append(s)
    # array forms on 8 bits: pairs of single-width ranges with a stride that fits
    fs = []
    n = 0
    for rl in disjoint_range_lists_8(2):
        top = max(b for a, b in rl)
        w = sum(b - a + 1 for a, b in rl)
        for stride in range(1, 8):
            for K in (2, 3, 4):
                if top + (K - 1) * stride > 7:
                    continue
                if tier == "quick" and h("ncarr8", n, stride, K) % 4 != 0:
                    n += 1
                    continue
                n += 1
                fs.append(field("m%d" % n, rl, T_uint(w), array={"k": K, "stride": stride}, syn=h("ncarr", n) % SYN))
    for c in range(0, len(fs), 30):
        out.append(struct("nc_u8arr", "NA8_%d" % (c // 30), 8, fs[c:c + 30], family="NC"))
    if tier == "thorough":
        # all ordered pairs on 16 bits
        ranges = [(lo, hi) for lo in range(16) for hi in range(lo, 16)]
        fs = []
        n = 0
        for r1 in ranges:
            b1 = set(range(r1[0], r1[1] + 1))
            for r2 in ranges:
                if b1 & set(range(r2[0], r2[1] + 1)):
                    continue
                w = r1[1] - r1[0] + r2[1] - r2[0] + 2
                t = T_int(w) if (is_native(w) and n % 2 == 0) else T_uint(w)
                fs.append(field("l%d" % n, [r1, r2], t, syn=n % SYN))
                n += 1
        for c in range(0, len(fs), 40):
            out.append(struct("nc_u16", "N16_%d" % (c // 40), 16, fs[c:c + 40], family="NC"))
    # seeded lists on larger storages
    count = 200 if tier == "quick" else 2000
    fs_by_S = {16: [], 32: [], 64: [], 128: []}
    for n in range(count):
        S = rnd.choice([16, 32, 64, 128])
        nr = rnd.choice([2, 2, 3, 3, 4, 5, 6])
        rl = random_disjoint_list(rnd, S, nr)
        if not rl:
            continue
        w = sum(b - a + 1 for a, b in rl)
        t = T_int(w) if (is_native(w) and n % 2 == 0) else T_uint(w)
        arr = None
        top = max(b for a, b in rl)
        if n % 5 == 0 and top < S - 1:
            stride = rnd.randrange(1, max(2, (S - 1 - top)) + 1)
            kmax = (S - 1 - top) // stride + 1
            if kmax >= 2:
                arr = {"k": rnd.randrange(2, min(kmax, 6) + 1), "stride": stride}
        fs_by_S[S].append(field("q%d" % n, rl, t, array=arr, syn=n % SYN))
    for S, fs in fs_by_S.items():
        for c in range(0, len(fs), 25):
            s = struct("nc_rand", "NR%d_%d" % (S, c // 25), S, fs[c:c + 25], family="NC")
            add_const_witnesses(s, seed, maxn=1)
            out.append(s)
    return out


def enum_storage(n):
    return storage_of(n) if n <= 64 else None


def mk_enum(mod, name, bits, discrs, exh=None, cfgs=None, family="ENUM"):
    full = len(set(discrs)) == (1 << bits)
    if exh is None:
        exh = "true" if full else "false"
    vs = []
    for i, d in enumerate(discrs):
        vs.append(("V%d" % i, d, (cfgs or {}).get(i)))
    repr_ = None
    if max(discrs) >= (1 << 63):
        repr_ = "u64"
    return enum(mod, name, bits, vs, exh, repr_=repr_, family=family)


def fam_enum(tier, seed):
    out = []
    rnd = random.Random(h("enum", seed))
    # N <= 3: every non-empty discriminant set
    for N in (1, 2, 3):
        vals = list(range(1 << N))
        for mask in range(1, 1 << (1 << N)):
            ds = [v for v in vals if (mask >> v) & 1]
            # vary declaration order
            if mask % 3 == 1:
                ds = list(reversed(ds))
            elif mask % 3 == 2:
                rnd2 = random.Random(mask)
                rnd2.shuffle(ds)
            e = mk_enum("en_small", "E%d_%d" % (N, mask), N, ds)
            if len(ds) < (1 << N) and mask % 2 == 0:
                e["exh"] = None  # omitted == false
            out.append(e)
    # N <= 8: full and full-minus-one
    for N in range(4, 9):
        vals = list(range(1 << N))
        rnd.shuffle(vals)
        out.append(mk_enum("en_full", "F%d" % N, N, vals))
        miss = rnd.randrange(1 << N)
        out.append(mk_enum("en_full", "G%d" % N, N, [v for v in vals if v != miss]))
    # larger N: boundary sets
    for N in range(9, 65):
        mx = (1 << N) - 1
        sets = {"Z": [0], "M": [mx], "ZM": [0, mx], "P": sorted({1 << k for k in range(0, N, max(1, N // 6))} | {mx - 1})}
        if tier == "quick" and N not in (9, 15, 16, 17, 31, 32, 33, 63, 64) and N % 8 != 3:
            sets = {"ZM": [0, mx]}
        for tag, ds in sets.items():
            out.append(mk_enum("en_big", "B%d_%s" % (N, tag), N, ds))
    # conditional enums with cfg-gated variants (present and absent)
    out.append(mk_enum("en_cond", "Cnd2a", 2, [0, 1, 1, 2, 3], exh="conditional", cfgs={1: "on", 2: "off", 3: "off", 4: "on"}))
    out.append(mk_enum("en_cond", "Cnd2b", 2, [0, 1, 2, 3], exh="conditional", cfgs={3: "on"}))
    # variants gated through cfg_attr: with a false predicate the inner cfg does not apply and the variant stays
    out.append(mk_enum("en_cond", "CndA2", 2, [0, 1, 2, 3], exh="conditional", cfgs={1: "attr_keep", 3: "attr_on"}))
    out.append(mk_enum("en_cond", "CndA3", 3, [0, 2, 5, 6], exh="conditional", cfgs={1: "attr_keep", 2: "on", 3: "attr_keep"}))
    out.append(mk_enum("en_cond", "CndA8", 8, [0, 9, 200], exh="conditional", cfgs={2: "attr_keep"}))
    out.append(mk_enum("en_cond", "Cnd1", 1, [0, 1, 1], exh="conditional", cfgs={1: "on", 2: "off"}))
    out.append(mk_enum("en_cond", "Cnd8", 8, [0, 255, 7], exh="conditional", cfgs={2: "off"}))
    out.append(mk_enum("en_cond", "Cnd16", 16, [0, 65535, 7], exh="conditional"))
    out.append(mk_enum("en_cond", "Cnd3", 3, list(range(8)) + [7], exh="conditional", cfgs={7: "on", 8: "off"}))
    # the compiled-out twin declared *before* the live variant with the same discriminant
    out.append(mk_enum("en_cond", "Cnd2c", 2, [0, 1, 1, 3, 3], exh="conditional", cfgs={1: "off", 2: "on", 3: "off", 4: "on"}))
    out.append(mk_enum("en_cond", "Cnd1c", 1, [1, 1, 0], exh="conditional", cfgs={0: "off", 1: "on"}))
    e = mk_enum("en_cond", "Cnd8c", 8, [0, 17, 17, 200, 200, 200], exh="conditional", cfgs={1: "off", 2: "on", 3: "off", 4: "off", 5: "on"})
    for v, lit in zip(e["variants"], ["0", "0x11", "17", "200", "0xC8", "0b1100_1000"]):
        v["discr_lit"] = lit
    out.append(e)
    e = mk_enum("en_cond", "Cnd12c", 12, [4095, 4095, 7], exh="conditional", cfgs={0: "off", 1: "on"})
    out.append(e)
    # exactly 2^N variants written down, some compiled out: values without a live variant must give Err
    out.append(mk_enum("en_cond", "CndFull1", 1, [0, 1], exh="conditional", cfgs={1: "off"}))
    out.append(mk_enum("en_cond", "CndFull2", 2, [0, 1, 2, 3], exh="conditional", cfgs={1: "off", 3: "on"}))
    out.append(mk_enum("en_cond", "CndFull2b", 2, [3, 2, 1, 0], exh="conditional", cfgs={0: "off", 1: "off", 2: "off"}))
    out.append(mk_enum("en_cond", "CndFull3", 3, list(range(8)), exh="conditional", cfgs={2: "off", 5: "off", 6: "on"}))
    out.append(mk_enum("en_cond", "CndFull8", 8, list(range(256)), exh="conditional", cfgs={7: "off", 255: "off", 0: "on"}))
    out.append(mk_enum("en_cond", "CndFull2all", 2, [0, 1, 2, 3], exh="conditional", cfgs={0: "on", 1: "on", 2: "on", 3: "on"}))
    for e in out:
        add_enum_consts(e)
    return out


def enum_present(e):
    return [v for v in e["variants"] if v["cfg"] != "off"]


def add_enum_consts(e):
    pv = enum_present(e)
    if not pv:
        return
    N = e["bits"]
    v = pv[len(pv) // 2]
    ty = "u%d" % N if is_native(N) else "arbitrary_int::u%d" % N
    e["consts"].append({"name": "K_%s_R" % e["name"].upper(), "ty": ty, "expr": "%s::%s.raw_value()" % (e["name"], v["name"]),
                        "kind": "enum_raw", "discr": v["discr"]})


def fam_custom(tier, seed):
    """fields typed by bitenums, Option<bitenum> and nested bitfields"""
    out = []
    mod = "custom"
    enums = {}
    # helper enums: exhaustive for small widths, non-exhaustive for all widths
    for w in (1, 2, 3):
        e = mk_enum(mod, "X%d" % w, w, list(range(1 << w)))
        enums[("x", w)] = e
        out.append(e)
    for w in (1, 2, 3, 5, 7, 8, 9, 12, 16, 24, 32, 33, 48, 63, 64):
        ds = sorted({0, (1 << w) - 1, (1 << (w - 1))}) if w > 1 else [1]
        e = mk_enum(mod, "O%d" % w, w, ds)
        enums[("o", w)] = e
        out.append(e)
    e8 = mk_enum(mod, "X8", 8, list(range(256)))
    enums[("x", 8)] = e8
    out.append(e8)
    # nested bitfields of assorted widths
    nested = {}
    for w in (1, 3, 8, 12, 16, 24, 32, 40, 63, 64, 65, 100, 127, 128):
        fs = [field("low", [(0, 0)], T_bool(), syn=w)]
        if w > 1:
            fs.append(field("rest", [(1, w - 1)], T_uint(w - 1), syn=w + 1))
        s = struct(mod, "In%d" % w, w, fs, family="CUSTOM")
        nested[w] = s
        out.append(s)

    def ety(kind, w):
        e = enums[(kind, w)]
        return T_enum(e["name"], w, kind == "x")

    # contiguous placements on every storage
    for S in NATIVE:
        fs = []
        pos = 0
        n = 0
        for kind, w in [("x", 1), ("o", 1), ("x", 2), ("o", 2), ("x", 3), ("o", 3), ("o", 5), ("o", 7), ("x", 8), ("o", 8), ("o", 9),
                        ("o", 12), ("o", 16), ("o", 24), ("o", 32), ("o", 33), ("o", 48), ("o", 63), ("o", 64)]:
            if w > S:
                continue
            # place at low boundary, mid and top-aligned (overlaps are fine: no builder)
            for lo in sorted({0, (S - w) // 2, S - w}):
                fs.append(field("e%s%d_%d" % (kind, w, lo), [(lo, lo + w - 1)], ety(kind, w), syn=h("cus", S, kind, w, lo) % SYN))
                n += 1
        for w, ns in nested.items():
            if w > S:
                continue
            for lo in sorted({0, S - w}):
                fs.append(field("n%d_%d" % (w, lo), [(lo, lo + w - 1)], T_nested(ns["name"], w), syn=h("cusn", S, w, lo) % SYN))
        for c in range(0, len(fs), 30):
            out.append(struct(mod, "CU%d_%d" % (S, c // 30), S, fs[c:c + 30], family="CUSTOM"))
    # arrays and non-contiguous forms
    fs = [
        field("ax2", [(0, 1)], ety("x", 2), array={"k": 4, "stride": None}, syn=1),
        field("ao3", [(8, 10)], ety("o", 3), array={"k": 3, "stride": 4}, syn=2),
        field("ax1", [(20, 20)], ety("x", 1), array={"k": 5, "stride": 2}, syn=3),
        field("ao8", [(32, 39)], ety("o", 8), array={"k": 4, "stride": 8}, syn=4),
        field("an3", [(30, 32)], T_nested("In3", 3), array={"k": 2, "stride": 16}, syn=5),
    ]
    out.append(struct(mod, "CUArr", 64, fs, family="CUSTOM"))
    fs = [
        field("nx2", [(7, 7), (0, 0)], ety("x", 2), syn=1),
        field("no3", [(1, 1), (3, 3), (5, 5)], ety("o", 3), syn=2),
        field("nx8", [(12, 15), (8, 11)], ety("x", 8), syn=3),
        field("no16", [(24, 31), (16, 23)], ety("o", 16), syn=4),
        field("nn12", [(40, 45), (32, 37)], T_nested("In12", 12), syn=5),
        field("nax2", [(48, 48), (56, 56)], ety("x", 2), array={"k": 4, "stride": 1}, syn=6),
    ]
    out.append(struct(mod, "CUNc", 64, fs, family="CUSTOM"))
    # a builder over custom types (disjoint, complete)
    fs = [
        field("a", [(0, 1)], ety("x", 2), syn=0),
        field("b", [(2, 4)], ety("o", 3), syn=1),
        field("c", [(5, 7)], T_nested("In3", 3), syn=2),
    ]
    out.append(struct(mod, "CUBuild", 8, fs, family="CUSTOM"))
    # conditional enums as field types (their conversion returns Result, so they are used through Option)
    cnd = mk_enum(mod, "XC2", 2, [0, 1, 1, 3], exh="conditional", cfgs={1: "off", 2: "on"})
    cnd3 = mk_enum(mod, "XC3", 3, list(range(8)), exh="conditional", cfgs={5: "off"})
    out += [cnd, cnd3]
    fs = [
        field("c2", [(0, 1)], T_enum("XC2", 2, False), syn=3),
        field("c3", [(2, 4)], T_enum("XC3", 3, False), syn=4),
        field("c2a", [(8, 9)], T_enum("XC2", 2, False), array={"k": 3, "stride": 2}, syn=5),
        field("c3n", [(15, 15), (5, 6)], T_enum("XC3", 3, False), syn=6),
    ]
    out.append(struct(mod, "CUCond", 16, fs, family="CUSTOM"))
    out.append(struct(mod, "CUCondD", 16, [f for f in fs if not f["array"]], default={"form": "=", "value": 0xBEEF}, debug=True, family="CUSTOM"))
    # builders whose steps take arrays of custom types, nested bitfields with their own default, arbitrary-int base
    fs = [
        field("ea", [(0, 1)], ety("x", 2), array={"k": 3, "stride": None}, syn=7),
        field("oa", [(6, 8)], ety("o", 3), array={"k": 2, "stride": 3}, syn=8),
        field("na", [(12, 14)], T_nested("In3", 3), array={"k": 2, "stride": 4}, syn=9),
        field("rest", [(20, 23)], T_uint(4), syn=10),
    ]
    out.append(struct(mod, "CUBuildArr", 24, fs, default={"form": "=", "value": 0xABCDEF}, family="CUSTOM"))
    fs = [field("r#type", [(0, 1)], ety("x", 2), syn=11), field("r#match", [(2, 4)], ety("o", 3), syn=12), field("_n", [(5, 7)], T_uint(3), syn=13)]
    out.append(struct(mod, "CURawNames", 8, fs, debug=True, family="CUSTOM"))
    out.append(struct(mod, "CURawNamesD", 8, fs, default={"form": "=", "value": 0x5A}, debug=True, family="CUSTOM"))
    # qualified paths to custom types
    fs = [
        field("qa", [(0, 1)], dict(ety("x", 2), name="super::custom::X2"), syn=0),
        field("qb", [(2, 4)], dict(ety("o", 3), name="crate::custom::O3"), syn=1),
    ]
    out.append(struct("custom_q", "CUQual", 8, fs, family="CUSTOM"))
    return out


def fam_def(tier, seed):
    out = []
    bases = list(NATIVE) + NON_NATIVE
    forms = [None, "=", ":", "const=", "const:"]
    for N in bases:
        mx = (1 << N) - 1
        pats = [0, 1, mx, h("defpat", N) & mx]
        sel = forms if (tier == "thorough" or N in NATIVE or N in (1, 7, 9, 24, 33, 65, 127)) else [None, forms[1 + N % 4]]
        for fi, form in enumerate(sel):
            for pi, pat in enumerate(pats if form else [0]):
                if form and tier == "quick" and N not in NATIVE and pi not in (N % 4, 2):
                    continue
                # one small field so that some bits are covered and most are not
                fs = [field("b0", [(0, 0)], T_bool(), syn=N)]
                d = None if form is None else {"form": form, "value": pat}
                out.append(struct("defs", "D%d_%s_%d" % (N, {None: "n", "=": "e", ":": "c", "const=": "ke", "const:": "kc"}[form], pi), N, fs, default=d, family="DEF"))
    return out


def fam_build(tier, seed):
    out = []
    mod = "build"
    n = 0

    def add(name, base, fs, default=None):
        s = struct(mod, name, base, json.loads(json.dumps(fs)), default=default, family="BUILD")
        add_const_witnesses(s, seed, maxn=1)
        out.append(s)

    for base in (8, 16, 32, 64, 128, 7, 12, 24, 48, 100):
        S = storage_of(base)
        hlf = base // 2
        for dflt in (None, {"form": "=", "value": h("bd", base) & ((1 << base) - 1)}):
            tag = "d" if dflt else "n"
            # complete cover, two fields
            add("Cmp%d%s" % (base, tag), base, [field("lo", [(0, hlf - 1)], T_uint(hlf)), field("hi", [(hlf, base - 1)], T_uint(base - hlf))], dflt)
            # incomplete (top bit missing)
            add("Inc%d%s" % (base, tag), base, [field("lo", [(0, hlf - 1)], T_uint(hlf)), field("hi", [(hlf, base - 2)], T_uint(base - 1 - hlf))], dflt)
            # overlapping writable fields
            add("Ovl%d%s" % (base, tag), base, [field("lo", [(0, hlf)], T_uint(hlf + 1)), field("hi", [(hlf, base - 1)], T_uint(base - hlf))], dflt)
            # overlap only with a read-only field: still sound
            add("Ro%d%s" % (base, tag), base, [field("lo", [(0, hlf - 1)], T_uint(hlf)), field("hi", [(hlf, base - 1)], T_uint(base - hlf)),
                                              field("peek", [(0, base - 1)], T_uint(base), access="r")], dflt)
            # write-only field in the cover
            add("Wo%d%s" % (base, tag), base, [field("lo", [(0, hlf - 1)], T_uint(hlf), access="w"), field("hi", [(hlf, base - 1)], T_uint(base - hlf))], dflt)
            # read-only gap: cover incomplete through writable fields
            add("Gap%d%s" % (base, tag), base, [field("lo", [(0, hlf - 1)], T_uint(hlf), access="r"), field("hi", [(hlf, base - 1)], T_uint(base - hlf))], dflt)
            # single full-width field
            add("Full%d%s" % (base, tag), base, [field("all", [(0, base - 1)], T_uint(base))], dflt)
            if base >= 8:
                q = base // 4
                # arrays: disjoint elements, complete
                add("Arr%d%s" % (base, tag), base, [field("q", [(0, q - 1)], T_uint(q), array={"k": 3, "stride": None}),
                                                   field("rest", [(3 * q, base - 1)], T_uint(base - 3 * q))], dflt)
                # array elements overlapping a scalar field
                add("ArrOvl%d%s" % (base, tag), base, [field("q", [(0, q - 1)], T_uint(q), array={"k": 3, "stride": None}),
                                                      field("rest", [(3 * q - 1, base - 1)], T_uint(base - 3 * q + 1))], dflt)
                # non-contiguous, disjoint, complete
                add("Nc%d%s" % (base, tag), base, [field("sw", [(hlf, base - 1), (0, hlf - 1)], T_uint(base))], dflt)
                # non-contiguous interleaved arrays, complete on even/odd
                if base % 2 == 0 and base <= 64:
                    add("Il%d%s" % (base, tag), base, [field("ev", [(0, 0)], T_bool(), array={"k": hlf, "stride": 2}),
                                                      field("od", [(1, 1)], T_uint(1), array={"k": hlf, "stride": 2})], dflt)
                # non-contiguous array whose elements overlap each other (stride smaller than span)
                add("NcArrOvl%d%s" % (base, tag), base, [field("x", [(0, 0), (2, 2)], T_uint(2), array={"k": 2, "stride": 2})], dflt)
                # the reason that rules the builder out is declared first and well-formed writable fields follow it
                # (scalar, array, non-contiguous): whatever the generator tracks across fields must not forget it
                if base >= 16:
                    tail = [field("t_arr", [(8, 9)], T_uint(2), array={"k": 2, "stride": None}), field("t_s", [(12, 12)], T_bool()),
                            field("t_nc", [(13, 13), (15, 15)], T_uint(2))]
                    add("OvlThen%d%s" % (base, tag), base, [field("a", [(0, 4)], T_uint(5)), field("b", [(4, 7)], T_uint(4))] + tail, dflt)
                    add("OvlThenArr%d%s" % (base, tag), base, [field("a", [(0, 4)], T_uint(5)), field("b", [(4, 7)], T_uint(4)), tail[0]], dflt)
                    add("SelfThen%d%s" % (base, tag), base, [field("x", [(0, 3), (2, 5)], T_uint(8))] + tail, dflt)
                    add("SelfThenArr%d%s" % (base, tag), base, [field("x", [(0, 3), (2, 5)], T_uint(8)), tail[0]], dflt)
                    add("ArrOvlThen%d%s" % (base, tag), base, [field("x", [(0, 0), (2, 2)], T_uint(2), array={"k": 2, "stride": 2})] + tail, dflt)
                    add("ArrOvlThenArr%d%s" % (base, tag), base, [field("x", [(0, 0), (2, 2)], T_uint(2), array={"k": 2, "stride": 2}), tail[0]], dflt)
                    # ... and the other way round: the clean fields first, the offending one last
                    add("ThenOvl%d%s" % (base, tag), base, tail + [field("a", [(0, 4)], T_uint(5)), field("b", [(4, 7)], T_uint(4))], dflt)
                    # the overlap is between the first and the last field, with clean ones in between
                    add("OvlAround%d%s" % (base, tag), base, [field("a", [(0, 4)], T_uint(5))] + tail + [field("b", [(4, 7)], T_uint(4))], dflt)
                # a range list that names the same bits twice (accessors are outside C04; the builder must not exist)
                add("SelfOvl%d%s" % (base, tag), base, [field("x", [(0, 3), (2, 5)], T_uint(8))], dflt)
                add("SelfOvlB%d%s" % (base, tag), base, [field("x", [(1, 1), (1, 1)], T_uint(2)), field("y", [(4, 5)], T_uint(2))], dflt)
                add("SelfOvlArr%d%s" % (base, tag), base, [field("x", [(0, 1), (1, 2)], T_uint(4), array={"k": 2, "stride": 4})], dflt)
    # builders over long arrays (element counts around and beyond 32 / 64)
    for base, K, w in ((64, 33, 1), (64, 40, 1), (128, 50, 2), (128, 65, 1), (100, 100, 1), (127, 127, 1), (128, 33, 3), (64, 63, 1), (96, 48, 2), (128, 127, 1)):
        t = T_bool() if (w == 1 and K % 2) else T_uint(w)
        fs = [field("lanes", [(0, w - 1)], t, array={"k": K, "stride": None})]
        if K * w < base:
            fs.append(field("rest", [(K * w, base - 1)], T_uint(base - K * w)))
        add("Long%d_%d_%dn" % (base, K, w), base, fs, None)
        add("Long%d_%d_%dd" % (base, K, w), base, fs[:1], {"form": "=", "value": (1 << base) - 1})
    # many fields: one builder step per bit of the base (long type-state chains, masks up to 128 bits)
    for base in (8, 33, 64, 65, 127, 128):
        fs = []
        for i in range(base):
            t = T_bool() if i % 3 == 0 else T_uint(1)
            fs.append(field("b%d" % i, [(i, i)], t, access="rw" if i % 5 else "w", syn=h("many", base, i) % SYN))
        add("Many%dn" % base, base, fs, None)
        add("Many%dd" % base, base, list(reversed([dict(f) for f in fs])), {"form": "=", "value": h("manyd", base) & ((1 << base) - 1)})
    return out


def fam_acc(tier, seed):
    out = []
    mod = "acc"
    shapes = {
        "scalar": lambda a, n: field("f%d" % n, [(4 * n, 4 * n + 2)], T_uint(3), access=a),
        "bool": lambda a, n: field("f%d" % n, [(4 * n, 4 * n)], T_bool(), access=a),
        "array": lambda a, n: field("f%d" % n, [(4 * n, 4 * n)], T_uint(1), access=a, array={"k": 3, "stride": None}),
        "nc": lambda a, n: field("f%d" % n, [(4 * n + 2, 4 * n + 2), (4 * n, 4 * n)], T_uint(2), access=a),
        "signed": lambda a, n: field("f%d" % n, [(8 * n, 8 * n + 7)], T_int(8), access=a),
    }
    for shape, mk in shapes.items():
        fs = [mk(a, n) for n, a in enumerate(["r", "w", "rw", ""])]
        out.append(struct(mod, "Acc_%s" % shape, 32, fs, family="ACC"))
        out.append(struct(mod, "AccD_%s" % shape, 32, fs, default={"form": "=", "value": 0x5A5A5A5A}, family="ACC"))
    # enum-typed
    e = mk_enum(mod, "AE", 2, [0, 1, 2, 3])
    out.append(e)
    o = mk_enum(mod, "AO", 3, [1, 4, 6])
    inner = struct(mod, "AIn", 4, [field("x", [(0, 3)], T_uint(4))], family="ACC")
    out += [o, inner]
    more = {
        "optenum": lambda a, n: field("f%d" % n, [(4 * n, 4 * n + 2)], T_enum("AO", 3, False), access=a),
        "optenum_arr": lambda a, n: field("f%d" % n, [(8 * n, 8 * n + 2)], T_enum("AO", 3, False), access=a, array={"k": 2, "stride": 4}),
        "enum_arr": lambda a, n: field("f%d" % n, [(8 * n, 8 * n + 1)], T_enum("AE", 2, True), access=a, array={"k": 3, "stride": None}),
        "nested": lambda a, n: field("f%d" % n, [(4 * n, 4 * n + 3)], T_nested("AIn", 4), access=a),
        "bool_arr": lambda a, n: field("f%d" % n, [(8 * n, 8 * n)], T_bool(), access=a, array={"k": 4, "stride": 2}),
        "signed_arr": lambda a, n: field("f%d" % n, [(16 * n, 16 * n + 7)], T_int(8), access=a, array={"k": 2, "stride": None}),
        "nc_arr": lambda a, n: field("f%d" % n, [(8 * n, 8 * n), (8 * n + 2, 8 * n + 2)], T_uint(2), access=a, array={"k": 2, "stride": 4}),
        "nc_enum": lambda a, n: field("f%d" % n, [(8 * n + 4, 8 * n + 4), (8 * n, 8 * n)], T_enum("AE", 2, True), access=a),
        "nc_optenum": lambda a, n: field("f%d" % n, [(8 * n + 4, 8 * n + 5), (8 * n, 8 * n)], T_enum("AO", 3, False), access=a),
        "u1": lambda a, n: field("f%d" % n, [(2 * n, 2 * n)], T_uint(1), access=a),
        "native": lambda a, n: field("f%d" % n, [(16 * n, 16 * n + 15)], T_uint(16), access=a),
    }
    for shape, mk in more.items():
        fs = [mk(a, n) for n, a in enumerate(["r", "w", "rw", ""])]
        out.append(struct(mod, "Acc_%s" % shape, 64, fs, family="ACC"))
        out.append(struct(mod, "AccD_%s" % shape, 64, fs, default={"form": "=", "value": 0x5A5A5A5A_0F0F0F0F}, family="ACC"))
    # orders other than r,w,rw,none and mixed kinds in one struct
    mixed = [field("a", [(0, 2)], T_enum("AO", 3, False), access="w"), field("b", [(3, 3)], T_bool(), access=""), field("c", [(4, 7)], T_uint(4), access="r"),
             field("d", [(8, 9)], T_enum("AE", 2, True), access=""), field("e", [(10, 12)], T_enum("AO", 3, False), access=""),
             field("f", [(16, 23)], T_int(8), access="w"), field("g", [(24, 27)], T_nested("AIn", 4), access="w")]
    out.append(struct(mod, "Acc_mixed", 32, mixed, family="ACC"))
    out.append(struct(mod, "AccD_mixed", 32, mixed, default={"form": "=", "value": 0xDEADBEEF}, family="ACC"))
    fs = [field("f%d" % n, [(2 * n, 2 * n + 1)], T_enum("AE", 2, True), access=a) for n, a in enumerate(["r", "w", "rw", ""])]
    out.append(struct(mod, "Acc_enum", 8, fs, family="ACC"))
    out.append(struct(mod, "AccD_enum", 8, fs, default={"form": "=", "value": 0xA5}, family="ACC"))
    return out


def fam_dbg(tier, seed):
    out = []
    mod = "dbg"
    e = mk_enum(mod, "DE", 2, [0, 1, 2, 3])
    o = mk_enum(mod, "DO", 3, [1, 5])
    inner = struct(mod, "DInner", 4, [field("x", [(0, 3)], T_uint(4))], debug=True, family="DBG")
    out += [e, o, inner]
    kinds = [
        ("flag", lambda lo: ([(lo, lo)], T_bool())),
        ("small", lambda lo: ([(lo, lo + 2)], T_uint(3))),
        ("byte", lambda lo: ([(lo, lo + 7)], T_uint(8))),
        ("sbyte", lambda lo: ([(lo, lo + 7)], T_int(8))),
        ("en", lambda lo: ([(lo, lo + 1)], T_enum("DE", 2, True))),
        ("opt", lambda lo: ([(lo, lo + 2)], T_enum("DO", 3, False))),
        ("nest", lambda lo: ([(lo, lo + 3)], T_nested("DInner", 4))),
        ("r#type", lambda lo: ([(lo, lo + 4)], T_uint(5))),
        ("nc", lambda lo: ([(lo + 1, lo + 1), (lo, lo)], T_uint(2))),
    ]
    rnd = random.Random(h("dbg", seed))
    for nf in range(1, 9):
        for rep in range(3 if tier == "quick" else 8):
            ks = [kinds[(nf + rep * 3 + i * (rep + 1)) % len(kinds)] for i in range(nf)]
            # unique names
            fs = []
            lo = 0
            seen = set()
            for (nm, mk) in ks:
                base_nm = nm
                c = 0
                while nm in seen:
                    c += 1
                    nm = "%s%d" % (base_nm.replace("r#", ""), c)
                seen.add(nm)
                rs, t = mk(lo)
                lo += 8
                fs.append(field(nm, rs, t, access="rw" if (lo // 8) % 2 else "r", syn=lo))
            dflt = {"form": "=", "value": rnd.getrandbits(64)} if rep % 2 else None
            out.append(struct(mod, "Dbg%d_%d" % (nf, rep), 64, fs, default=dflt, debug=True, family="DBG"))
    # fields that alias the same bits (a raw and a typed view), partial overlaps, bool/u1 on one bit
    out.append(struct(mod, "DbgAlias", 16, [
        field("mode", [(0, 2)], T_enum("DO", 3, False)), field("enable", [(3, 3)], T_bool()), field("mode_raw", [(0, 2)], T_uint(3)),
        field("enable_raw", [(3, 3)], T_uint(1)), field("level", [(4, 7)], T_uint(4)), field("level_lo", [(4, 5)], T_uint(2)),
        field("wide", [(0, 7)], T_uint(8)), field("swapped", [(3, 3), (0, 2)], T_uint(4)), field("mode2", [(0, 2)], T_uint(3)),
    ], debug=True, family="DBG"))
    out.append(struct(mod, "DbgAlias2", 8, [field("a", [(0, 7)], T_uint(8)), field("b", [(0, 7)], T_int(8)), field("c", [(0, 7)], T_uint(8), access="r")],
                      default={"form": "=", "value": 0x5A}, debug=True, family="DBG"))
    out.append(struct(mod, "DbgNames", 32, [
        field("_rsvd", [(0, 2)], T_uint(3)), field("__x", [(3, 3)], T_bool()), field("f0", [(4, 7)], T_uint(4)), field("x_", [(8, 15)], T_int(8)),
        field("_", [(16, 16)], T_bool(), access="r") if False else field("_busy", [(16, 16)], T_bool(), access="r"),
        field("r#loop", [(17, 19)], T_uint(3)), field("a_very_long_field_name_with_many_parts", [(20, 23)], T_uint(4)), field("r#mode", [(24, 27)], T_uint(4)),
        field("r#raw_value_", [(28, 31)], T_uint(4)),
    ], debug=True, family="DBG"))
    # raw identifiers that are not keywords (the label printed is the identifier as written)
    out.append(struct(mod, "DbgRaw", 16, [field("r#mode", [(0, 3)], T_uint(4)), field("plain", [(4, 7)], T_uint(4)), field("r#level", [(8, 15)], T_int(8), access="r")],
                      debug=True, family="DBG"))
    out.append(struct(mod, "DbgRawD", 16, [field("r#speed", [(0, 7)], T_uint(8)), field("r#on", [(8, 8)], T_bool())], default={"form": "=", "value": 0x1FF}, debug=True, family="DBG"))
    # arbitrary base with debug
    out.append(struct(mod, "Dbg24", 24, [field("a", [(0, 11)], T_uint(12)), field("r#fn", [(23, 23)], T_bool())], debug=True, family="DBG"))
    # zero fields
    out.append(struct(mod, "Dbg0", 8, [], debug=True, family="DBG"))
    # a user trait in scope whose by-value methods carry the names of the fields, implemented for every type: the
    # generated Debug impl must still print what the *getters* return (calling a getter on a copied value instead
    # of through `&self` would resolve to the trait method first)
    shadow_fields = ["flag", "level", "mode", "opt", "inner", "raw"]
    lines = ["/// by-value methods named like the fields of DbgShadow", "pub trait Shadow: Sized {"]
    for nm in shadow_fields:
        lines += ["    /// shadows the getter `%s`" % nm, "    fn %s(self) -> u64 {" % nm, "        0xDEAD", "    }"]
    lines += ["}", "impl<T> Shadow for T {}"]
    out.append({"kind": "raw", "mod": mod, "name": "Shadow", "path": "%s::Shadow" % mod, "lines": lines, "defines": ["Shadow"]})
    for nmx, dflt in (("DbgShadow", None), ("DbgShadowD", {"form": "=", "value": 0xBEEF})):
        out.append(struct(mod, nmx, 32, [
            field("flag", [(0, 0)], T_bool()), field("level", [(1, 4)], T_uint(4)), field("mode", [(5, 6)], T_enum("DE", 2, True), access="r"),
            field("opt", [(7, 9)], T_enum("DO", 3, False)), field("inner", [(12, 15)], T_nested("DInner", 4)), field("raw", [(16, 31)], T_int(16)),
        ], default=dflt, debug=True, family="DBG"))
    # fields named like the identifiers a hand-written `fmt` would use for its parameter and locals, and a field
    # named like a constant in scope (a `let <field> = self.<field>();` in the generated impl would shadow the
    # formatter, or turn into a constant pattern) -- seeded C19_r13
    out.append({"kind": "raw", "mod": mod, "name": "kmax", "path": "%s::kmax" % mod, "defines": ["kmax"],
                "lines": ["/// a constant named like a field of DbgLocals", "#[allow(non_upper_case_globals)]", "pub const kmax: u8 = 3;",
                          "/// a unit struct named like a field of DbgLocals", "#[allow(non_camel_case_types)]", "pub struct ds;"]})
    for nmx, dflt in (("DbgLocals", None), ("DbgLocalsD", {"form": "=", "value": 0x12345678})):
        out.append(struct(mod, nmx, 32, [
            field("f", [(0, 3)], T_uint(4)), field("fmt", [(4, 4)], T_bool()), field("formatter", [(5, 7)], T_uint(3), access="r"),
            field("s", [(8, 15)], T_int(8)), field("d", [(12, 12)], T_bool()), field("ds", [(13, 15)], T_uint(3)),
            field("kmax", [(16, 19)], T_uint(4)), field("result", [(20, 23)], T_uint(4)), field("this", [(24, 27)], T_uint(4)),
            field("value", [(28, 31)], T_uint(4)),
        ], default=dflt, debug=True, family="DBG"))
    # every base width class, full-width and top-bit fields, wide signed fields
    for w in (8, 16, 32, 64, 128, 12, 48, 100):
        fs = [field("whole", [(0, w - 1)], T_uint(w)), field("top", [(w - 1, w - 1)], T_bool(), access="r"),
              field("low", [(0, 0)], T_uint(1))]
        if w in (8, 16, 32, 64, 128):
            fs.append(field("signed", [(0, w - 1)], T_int(w)))
        elif w > 8:
            fs.append(field("sb", [(w - 8, w - 1)], T_int(8)))
        if w >= 12:
            fs.append(field("split", [(w - 4, w - 1), (0, 3)], T_uint(8)))
        out.append(struct(mod, "DbgW%d" % w, w, fs, debug=True, family="DBG",
                          default=({"form": "=", "value": (1 << (w - 1)) | 1} if w % 3 else None)))
    return out


# ------------------------------------------------------------------ RND: seeded random declarations


RND_RAW_NAMES = ["r#type", "r#loop", "r#mod", "r#fn", "r#match", "r#ref", "r#move", "r#in"]


def rnd_tools(rnd, mod="rnd", simple=False):
    """generator functions for random rule-valid fields / structs; simple=True restricts types to bool/uN/iN"""
    helpers = []
    ex = {}
    for w in (1, 2, 3, 8):
        e = mk_enum(mod, "RX%d" % w, w, list(range(1 << w)), family="RND")
        ex[w] = e
        helpers.append(e)
    op = {}
    for w in (2, 3, 5, 8, 16):
        ds = sorted({1, (1 << w) - 2, 1 << (w - 1)})
        e = mk_enum(mod, "RO%d" % w, w, ds, family="RND")
        op[w] = e
        helpers.append(e)
    ne = {}
    for w in (3, 8, 12, 16):
        n_ = struct(mod, "RN%d" % w, w, [field("a", [(0, 0)], T_bool()), field("b", [(1, w - 1)], T_uint(w - 1))], debug=True, family="RND")
        ne[w] = n_
        helpers.append(n_)
    WIDTHS = [1, 1, 2, 2, 3, 4, 5, 7, 8, 8, 9, 12, 15, 16, 16, 17, 24, 31, 32, 33, 48, 63, 64, 65, 100, 127, 128]

    def pick_type(w_max, want=None):
        """(type, width) with width <= w_max (and == want when given)"""
        for _ in range(40):
            kind = rnd.choice(["bool", "uint", "uint", "uint", "int"] + ([] if simple else ["enum", "optenum", "nested"]))
            if kind == "bool":
                w = 1
            elif kind == "uint":
                w = want if want else rnd.choice(WIDTHS + [w_max])
            elif kind == "int":
                w = rnd.choice(NATIVE)
            elif kind == "enum":
                w = rnd.choice(sorted(ex))
            elif kind == "optenum":
                w = rnd.choice(sorted(op))
            else:
                w = rnd.choice(sorted(ne))
            if w > w_max or w < 1 or (want and w != want):
                continue
            t = {"bool": T_bool(), "uint": T_uint(w, qualified=rnd.choice([0, 0, 0, 1, 2]) if not is_native(w) else False), "int": T_int(w)}.get(kind)
            if kind == "enum":
                t = T_enum("RX%d" % w, w, True)
            elif kind == "optenum":
                t = T_enum("RO%d" % w, w, False)
            elif kind == "nested":
                t = T_nested("RN%d" % w, w)
            return t, w
        return (T_uint(want), want) if want else (T_bool(), 1)

    def split(w):
        k = rnd.choice([2, 2, 3, 4])
        k = min(k, w)
        cuts = sorted(rnd.sample(range(1, w), k - 1)) if k > 1 else []
        sizes = [b - a for a, b in zip([0] + cuts, cuts + [w])]
        return sizes

    def place(sizes, L, align):
        """disjoint placement of pieces (ascending), inside [0, L); returns list of (lo, hi) in ascending position"""
        w = sum(sizes)
        slack = L - w
        gaps = [0] * (len(sizes) + 1)
        if len(sizes) > 1 and slack > 0:
            for i in range(1, len(sizes)):
                g = rnd.randint(0, max(0, min(slack, 6)))
                gaps[i] = g
                slack -= g
        if align == "top":
            gaps[0] = slack
        elif align == "bottom":
            gaps[0] = 0
        else:
            gaps[0] = rnd.randint(0, slack) if slack > 0 else 0
        pos = gaps[0]
        rs = []
        for i, sz in enumerate(sizes):
            if i:
                pos += gaps[i]
            rs.append((pos, pos + sz - 1))
            pos += sz
        return rs

    def names(nf):
        used = set()
        res = []
        raws = list(RND_RAW_NAMES)
        rnd.shuffle(raws)
        for i in range(nf):
            st = rnd.random()
            if st < 0.08 and raws:
                nm = raws.pop()
            elif st < 0.18:
                nm = "_f%d" % i
            elif st < 0.24:
                nm = "f%d_" % i
            elif st < 0.28:
                nm = "__f%d" % i
            else:
                nm = "f%d" % i
            res.append(nm)
            used.add(nm)
        return res

    def access():
        return rnd.choice(["rw", "rw", "rw", "rw", "r", "w", "r", "w", ""])

    def free_field(N, nm):
        t, w = pick_type(N)
        is_arr = rnd.random() < 0.3 and 2 * w <= N
        aligns = ["top", "top", "bottom", "any", "any"]
        if is_arr:
            nc = rnd.random() < 0.35 and w >= 2
            sizes = split(w) if nc else [w]
            kmax = N // w
            K = min(kmax, rnd.choice([2, 2, 3, 4, 5, 8, kmax]))
            # span of one element and the stride
            span_budget = N - (K - 1) * 1
            if nc:
                elem_L = rnd.randint(w, min(N - (K - 1), w + 6))
                rs = place(sizes, elem_L, "any")
                span = rs[-1][1] + 1
                smax = (N - span) // (K - 1)
                if smax < 1:
                    return free_field(N, nm)
                stride = rnd.choice([1, span, smax, rnd.randint(1, smax)])
                stride = max(1, min(stride, smax))
                # no self-overlap inside one element is guaranteed by place(); elements may interleave / overlap
                base_lo = rnd.choice([0, N - span - (K - 1) * stride, rnd.randint(0, N - span - (K - 1) * stride)])
                rs = [(a + base_lo, b + base_lo) for a, b in rs]
                order = list(rs)
                rnd.shuffle(order)
                return field(nm, order, t, access=access(), array={"k": K, "stride": stride}, syn=rnd.randrange(SYN))
            smax = (N - w) // (K - 1)
            stride = rnd.choice([None, None, w, smax, rnd.randint(w, smax)])
            st = w if stride is None else stride
            room = N - w - (K - 1) * st
            lo = rnd.choice([0, room, rnd.randint(0, room)])
            return field(nm, [(lo, lo + w - 1)], t, access=access(), array={"k": K, "stride": stride}, syn=rnd.randrange(SYN))
        nc = rnd.random() < 0.3 and w >= 2
        if nc:
            sizes = split(w)
            L = rnd.randint(w, N)
            rs = place(sizes, L, "any")
            span = rs[-1][1] + 1
            base_lo = rnd.choice([0, N - span, rnd.randint(0, N - span)])
            rs = [(a + base_lo, b + base_lo) for a, b in rs]
            if N > 64 and rnd.random() < 0.3 and span < N:
                pass
            order = list(rs)
            rnd.shuffle(order)
            return field(nm, order, t, access=access(), syn=rnd.randrange(SYN))
        al = rnd.choice(aligns)
        lo = N - w if al == "top" else 0 if al == "bottom" else rnd.randint(0, N - w)
        if N > 64 and w < N and rnd.random() < 0.25:
            # straddle or touch bit 64
            lo = max(0, min(N - w, 64 - rnd.randint(0, w)))
        return field(nm, [(lo, lo + w - 1)], t, access=access(), syn=rnd.randrange(SYN), force_list=rnd.random() < 0.1)

    def tile_struct(N, name):
        """disjoint fields covering the base (builder expected unless a gap is left without a default)"""
        segs = []
        pos = 0
        while pos < N:
            w = min(N - pos, rnd.choice([1, 1, 2, 3, 4, 5, 8, 8, 12, 16, 24, 32, 64]))
            if rnd.random() < 0.2 and 2 * w <= N - pos:
                K = min((N - pos) // w, rnd.choice([2, 3, 4, 8]))
                segs.append(("arr", pos, w, K))
                pos += w * K
            else:
                segs.append(("one", pos, w, 1))
                pos += w
        nms = names(len(segs) + 2)
        fs = []
        pending = None
        for i, (kind, lo, w, K) in enumerate(segs):
            if kind == "arr":
                t, _ = pick_type(w, want=w)
                fs.append(field(nms[i], [(lo, lo + w - 1)], t, access=rnd.choice(["rw", "rw", "w"]), array={"k": K, "stride": rnd.choice([None, w])}, syn=rnd.randrange(SYN)))
                continue
            if pending is None and rnd.random() < 0.2 and i + 2 < len(segs):
                pending = (lo, w)
                continue
            if pending is not None and rnd.random() < 0.6:
                plo, pw = pending
                pending = None
                rs = [(plo, plo + pw - 1), (lo, lo + w - 1)]
                if rnd.random() < 0.5:
                    rs.reverse()
                t, _ = pick_type(pw + w, want=pw + w)
                fs.append(field(nms[i], rs, t, access=rnd.choice(["rw", "rw", "w"]), syn=rnd.randrange(SYN)))
                continue
            t, _ = pick_type(w, want=w)
            fs.append(field(nms[i], [(lo, lo + w - 1)], t, access=rnd.choice(["rw", "rw", "rw", "w", "r"]), syn=rnd.randrange(SYN)))
        if pending is not None:
            plo, pw = pending
            t, _ = pick_type(pw, want=pw)
            fs.append(field(nms[-1], [(plo, plo + pw - 1)], t, access="rw", syn=rnd.randrange(SYN)))
        rnd.shuffle(fs) if rnd.random() < 0.3 else None
        covered = set()
        for f in fs:
            if "w" in f["access"]:
                covered |= ffootprint(f)
        dflt = None
        if len(covered) < N or rnd.random() < 0.4:
            dflt = {"form": rnd.choice(["=", ":"]), "value": rnd.getrandbits(N)}
        if len(covered) < N and rnd.random() < 0.15:
            dflt = None  # incomplete cover without default: no builder expected
        return struct(mod, name, N, fs, default=dflt, family="RND")

    return {"helpers": helpers, "free_field": free_field, "tile_struct": tile_struct, "names": names}


def fam_rnd(tier, seed):
    """random rule-valid declarations drawn from the whole feature grammar (base class x type kind x range form
    x array form x position x access x default/debug x name style). The hand-written families fix the shapes
    someone thought of; this one samples combinations nobody listed, differently for every VERIF_SEED."""
    out = []
    mod = "rnd"
    rnd = random.Random(h("rnd", seed, tier))
    tools = rnd_tools(rnd, mod)
    helpers, free_field, tile_struct, names = tools["helpers"], tools["free_field"], tools["tile_struct"], tools["names"]
    count = 70 if tier == "quick" else 700
    for i in range(count):
        r = rnd.random()
        if r < 0.45:
            N = rnd.choice(NATIVE)
        elif r < 0.75:
            N = rnd.choice([1, 2, 3, 4, 5, 6, 7, 9, 12, 15, 17, 24, 31, 33, 48, 63, 65, 70, 96, 100, 127])
        else:
            N = rnd.randint(1, 127)
            if is_native(N):
                N += 1
        if i % 3 == 2 and N >= 4:
            s = tile_struct(N, "T%d_%d" % (i, N))
        else:
            nf = rnd.randint(1, 9)
            nms = names(nf)
            fs = [free_field(N, nms[j]) for j in range(nf)]
            dflt = {"form": rnd.choice(["=", ":"]), "value": rnd.getrandbits(N)} if rnd.random() < 0.5 else None
            dbg = all("r" in f["access"] and not f["array"] for f in fs) and rnd.random() < 0.7
            s = struct(mod, "F%d_%d" % (i, N), N, fs, default=dflt, debug=dbg, family="RND")
        add_const_witnesses(s, seed, maxn=2)
        out.append(s)
    return helpers, out



def fam_macro(tier, seed):
    """declarations stamped out by macro_rules! (fixed sample of the RND grammar plus the README-like shapes)"""
    mod = "mac"
    rnd = random.Random(h("mac", tier))
    tools = rnd_tools(rnd, mod)
    out = []
    n = 18 if tier == "quick" else 120
    for i in range(n):
        N = rnd.choice([8, 16, 32, 64, 128, 7, 12, 24, 48, 65, 100])
        if i % 3 == 2:
            s = tools["tile_struct"](N, "M%d_%d" % (i, N))
        else:
            nf = rnd.randint(1, 6)
            nms = tools["names"](nf)
            fs = [tools["free_field"](N, nms[j]) for j in range(nf)]
            dflt = None
            if i % 2 == 0:
                dflt = {"form": rnd.choice(["=", ":", "const="]), "value": rnd.getrandbits(N)}
            dbg = all("r" in f["access"] and not f["array"] for f in fs) and i % 4 < 2
            s = struct(mod, "M%d_%d" % (i, N), N, fs, default=dflt, debug=dbg, family="MACRO")
        s["family"] = "MACRO"
        s["via_macro"] = True
        add_const_witnesses(s, seed, maxn=2)
        out.append(s)
    return tools["helpers"], out


def fam_misc(tier, seed):
    """declaration shapes around the fields: visibility, pass-through attributes, argument order, literal
    spellings, unusual field names, declaration order different from bit order, zero fields"""
    out = []
    mod = "misc"
    base_fields = lambda: [field("lo", [(0, 3)], T_uint(4)), field("hi", [(4, 7)], T_uint(4))]
    for i, (vis, attrs) in enumerate([("pub(crate) ", []), ("", []), ("pub(super) ", []), ("pub ", ["#[derive(PartialEq, Eq)]"]),
                                       ("pub ", ["#[derive(Debug)]"]), ("pub ", ["#[derive(PartialEq, Eq, PartialOrd, Ord, Hash, Debug)]"]),
                                       ("pub ", ["#[allow(dead_code)]", "#[must_use]"])]):
        for dflt in (None, {"form": "=", "value": 0x5A}):
            s = struct(mod, "Vis%d%s" % (i, "d" if dflt else "n"), 8, base_fields(), default=dflt, family="MISC", extra={"vis": vis, "attrs": attrs})
            add_const_witnesses(s, seed, maxn=1)
            out.append(s)
    # argument order and literal spellings of the bitfield attribute
    out.append(struct(mod, "DbgFirst", 16, [field("a", [(0, 7)], T_uint(8)), field("b", [(8, 15)], T_int(8))], default={"form": "=", "value": 0x1234}, debug=True,
                      family="MISC", extra={"debug_first": True}))
    for i, (lit, val, base) in enumerate([("0b1010_0101", 0xA5, 8), ("0o17", 15, 8), ("1_000", 1000, 16), ("0xFFFF_FFFF", 0xFFFFFFFF, 32), ("0xffff_ffff_ffff_ffff", (1 << 64) - 1, 64),
                                          ("340282366920938463463374607431768211455", (1 << 128) - 1, 128), ("18446744073709551616", 1 << 64, 128), ("0x7f", 0x7f, 7),
                                          ("0x1_0000_0000_0000_0000", 1 << 64, 65), ("16777215", (1 << 24) - 1, 24), ("0b1", 1, 1), ("5u32", 5, 32), ("5_u8", 5, 8)]):
        for form in ("=", ":"):
            out.append(struct(mod, "Lit%d%s" % (i, "e" if form == "=" else "c"), base, [field("b0", [(0, 0)], T_bool())],
                              default={"form": form, "value": val, "lit": lit}, family="MISC"))
    # field names: raw identifiers, leading underscores, names that collide with generated prefixes
    names = ["r#type", "r#fn", "_x", "__y", "set_z", "with_q", "raw", "value", "index", "field_value", "builder_", "zero", "default_", "r#mod"]
    fs = [field(nm, [(4 * i, 4 * i + 2)], T_uint(3), access=["rw", "r", "w", "rw"][i % 4]) for i, nm in enumerate(names)]
    for dflt in (None, {"form": "=", "value": 0x0123456789ABCDEF}):
        s = struct(mod, "Names%s" % ("d" if dflt else "n"), 64, fs, default=dflt, family="MISC")
        add_const_witnesses(s, seed, maxn=3)
        out.append(s)
    fs = [field(nm, [(8 * i, 8 * i)], T_bool(), access="rw", array={"k": 3, "stride": 2}) for i, nm in enumerate(["r#loop", "_arr", "with_arr", "set_arr"])]
    out.append(struct(mod, "NamesArr", 32, fs, default={"form": "=", "value": 0}, family="MISC"))
    # declaration order different from bit order; fields of mixed kinds; complete cover -> builder
    for base in (8, 16, 24, 32, 64, 100, 128):
        q = base // 4
        fs = [field("top", [(3 * q, base - 1)], T_uint(base - 3 * q)), field("bot", [(0, q - 1)], T_uint(q)),
              field("upper", [(2 * q, 3 * q - 1)], T_uint(q)), field("lower", [(q, 2 * q - 1)], T_uint(q))]
        s = struct(mod, "Order%d" % base, base, fs, family="MISC")
        add_const_witnesses(s, seed, maxn=1)
        out.append(s)
        fs2 = list(reversed(fs))
        s = struct(mod, "OrderR%d" % base, base, [dict(f) for f in fs2], default={"form": "=", "value": h("ord", base) & ((1 << base) - 1)}, family="MISC")
        add_const_witnesses(s, seed, maxn=1)
        out.append(s)
    # default given as a named constant whose identifier is also used by the expansion / by arbitrary_int
    for i, cname in enumerate(["MAX", "MIN", "ZERO", "DEFAULT", "BITS", "MASK", "DEFAULT_RAW_VALUE", "CLEAR_MASK", "value", "Self_"]):
        if not cname[0].isupper() and cname != "value":
            continue
        for base, val in ((32, 0x1234), (16, 100), (24, 0x567), (128, (1 << 100) + 5), (65, (1 << 64) + 3)):
            form = "const=" if (i + base) % 2 == 0 else "const:"
            out.append(struct("misc_c%d_%d" % (i, base), "K", base, [field("b0", [(0, 0)], T_bool()), field("top", [(base - 1, base - 1)], T_bool())],
                              default={"form": form, "value": val, "cname": cname if cname != "value" else "VALUE"}, family="MISC"))
    # type path spellings: leading `::`, fully qualified Option
    o = mk_enum(mod, "PathO", 3, [1, 2, 5], family="MISC")
    out.append(o)
    fs = [field("a", [(0, 4)], T_uint(5, qualified=2)), field("b", [(5, 7)], dict(T_enum("PathO", 3, False), opt="core::option::Option")),
          field("c", [(8, 10)], dict(T_enum("PathO", 3, False), opt="::core::option::Option")), field("d", [(11, 15)], T_uint(5, qualified=1), array={"k": 2, "stride": 8}),
          field("e", [(32, 34)], dict(T_enum("PathO", 3, False), opt="core::option::Option"), array={"k": 2, "stride": 4})]
    for dflt in (None, {"form": "=", "value": 0x1234_5678_9ABC}):
        s = struct(mod, "Paths%s" % ("d" if dflt else "n"), 48, fs, default=dflt, family="MISC")
        add_const_witnesses(s, seed, maxn=2)
        out.append(s)
    # context: declarations in a nested module and local to a function body (with an enum and a nested bitfield
    # declared in the same scope)
    for ctxmod in ("misc_ctxm::inner::deeper", "misc_ctxf::holder()"):
        e = mk_enum(ctxmod, "CtxE", 2, [0, 1, 2, 3], family="MISC")
        o = mk_enum(ctxmod, "CtxO", 3, [2, 5], family="MISC")
        n_ = struct(ctxmod, "CtxN", 4, [field("a", [(0, 3)], T_uint(4))], debug=True, family="MISC")
        out += [e, o, n_]
        fs = [field("flag", [(0, 0)], T_bool()), field("e", [(1, 2)], T_enum("CtxE", 2, True)), field("o", [(3, 5)], T_enum("CtxO", 3, False)),
              field("n", [(8, 11)], T_nested("CtxN", 4)), field("s", [(16, 23)], T_int(8)), field("arr", [(24, 25)], T_uint(2), array={"k": 4, "stride": None}),
              field("nc", [(12, 13), (6, 7)], T_uint(4))]
        for dflt, dbg in ((None, False), ({"form": "=", "value": 0x1234_5678}, False)):
            s = struct(ctxmod, "Ctx%s" % ("d" if dflt else "n"), 32, json.loads(json.dumps(fs)), default=dflt, family="MISC")
            add_const_witnesses(s, seed, maxn=2)
            out.append(s)
        out.append(struct(ctxmod, "CtxDbg", 16, json.loads(json.dumps(fs[:4])), debug=True, family="MISC"))
    # field names equal to identifiers the expansion is known to use inside accessor bodies, in the field shapes
    # whose bodies use them (non-contiguous scalar / non-contiguous array / contiguous array / plain), with
    # primitive-integer, arbitrary-int and bool types
    inner_names = ["MASK", "CLEAR_MASK", "effective_index", "field_value", "value", "index", "temp", "extracted_bits", "raw_value_", "new_bits", "shift", "bits", "result", "this"]
    for i, nm in enumerate(inner_names):
        fs = [field(nm, [(0, 3), (8, 11)], T_uint(8)),
              field("plain%d" % i, [(4, 7)], T_uint(4))]
        out.append(struct("misc_in%d" % i, "NcScalar", 32, fs, default={"form": "=", "value": 0x0F0F_0F0F}, family="MISC"))
        if nm != "index":  # (the accessors of array fields take a parameter called `index`: not a legal field name there)
            fs = [field(nm, [(0, 1), (4, 5)], T_uint(4), array={"k": 3, "stride": 8}), field("plain%d" % i, [(2, 3)], T_uint(2))]
            out.append(struct("misc_in%d" % i, "NcArray", 32, fs, default={"form": "=", "value": 0x1234_5678}, family="MISC"))
            fs = [field(nm, [(0, 7)], T_uint(8), array={"k": 3, "stride": None}), field("plain%d" % i, [(24, 31)], T_int(8))]
            out.append(struct("misc_in%d" % i, "CtArray", 32, fs, family="MISC"))
        fs = [field(nm, [(0, 15)], T_uint(16)), field("plain%d" % i, [(16, 16)], T_bool()), field("%s2" % nm, [(17, 19)], T_uint(3))]
        s_ = struct("misc_in%d" % i, "Plain", 32, fs, family="MISC")
        add_const_witnesses(s_, seed, maxn=2)
        out.append(s_)
    # upper-case and mixed-case field names (register-map style), documented, every kind
    fs = [field("RXNE", [(0, 0)], T_bool()), field("TXE", [(1, 1)], T_bool(), access="r"), field("DIV_Mantissa", [(4, 15)], T_uint(12)),
          field("DIV_Fraction", [(16, 19)], T_uint(4), access="w"), field("Ch", [(20, 21)], T_uint(2), array={"k": 3, "stride": None}),
          field("nRST", [(28, 29), (31, 31)], T_uint(3))]
    for dflt in (None, {"form": "=", "value": 0x8000_0001}):
        s_ = struct(mod, "Upper%s" % ("d" if dflt else "n"), 32, json.loads(json.dumps(fs)), default=dflt, family="MISC")
        add_const_witnesses(s_, seed, maxn=2)
        out.append(s_)
    out.append(struct(mod, "UpperDbg", 16, [field("RXNE", [(0, 0)], T_bool()), field("Mode", [(4, 7)], T_uint(4), access="r"), field("DR", [(8, 15)], T_int(8))], debug=True, family="MISC"))
    # fields written with an explicit visibility
    for i, fv in enumerate(["pub ", "pub(crate) ", "pub(super) ", "pub(self) "]):
        fs = [field("mode", [(0, 3)], T_uint(4)), field("flag", [(4, 4)], T_bool(), access="r"), field("lane", [(8, 9)], T_uint(2), array={"k": 4, "stride": None}),
              field("split", [(16, 19), (24, 27)], T_uint(8), access="w"), field("level", [(20, 23)], T_int(8) if False else T_uint(4))]
        for f in fs[: 1 + i % 4 + 1]:
            f["vis"] = fv
        fs[-1]["vis"] = fv
        s_ = struct(mod, "FieldVis%d" % i, 32, fs, default=({"form": "=", "value": 0x00C0_FFEE} if i % 2 else None), family="MISC")
        add_const_witnesses(s_, seed, maxn=3)
        out.append(s_)
    # one name declared twice: a read view and a write view of different bits (accepted; each gets its own half of the API)
    out.append(struct(mod, "TwoViews", 16, [field("ctl", [(4, 7)], T_uint(4), access="w"), field("ctl", [(0, 3)], T_uint(4), access="r"),
                                           field("st", [(8, 8)], T_bool(), access="r"), field("st", [(9, 9)], T_bool(), access="w"),
                                           field("data", [(12, 15)], T_uint(4), access="r"), field("data", [(10, 11)], T_uint(2), access="w", array={"k": 1 + 1, "stride": None})][:4],
                      default={"form": "=", "value": 0x1234}, family="MISC"))
    out.append(struct(mod, "TwoViews24", 24, [field("v", [(16, 23)], T_uint(8), access="r"), field("v", [(0, 7)], T_int(8), access="w")], family="MISC"))
    # variant names equal to identifiers generated code / the prelude uses
    for nm_, bits, exh in (("VarNamesF", 3, None), ("VarNamesC", 3, "conditional"), ("VarNamesT", 2, None)):
        vn = ["OFF", "MIN", "MAX", "BOTH", "ZERO", "Ok", "Err", "BITS"][: (1 << bits) if nm_.endswith("T") else 6]
        ds = list(range(len(vn)))
        if not nm_.endswith("T"):
            ds[-1] = 6
        e = enum(mod, nm_, bits, [(v, d, None) for v, d in zip(vn, ds)], exh if exh else ("true" if len(set(ds)) == (1 << bits) else "false"), family="MISC")
        out.append(e)
    e = enum(mod, "VarNamesO", 4, [("Some", 1, None), ("None", 2, None), ("Option", 4, None), ("Result", 8, None), ("DEFAULT", 3, None), ("Self_", 15, None), ("MASK", 5, None)], "false", family="MISC")
    out.append(e)
    out.append(struct(mod, "UsesVarNames", 16, [field("a", [(0, 2)], T_enum("VarNamesF", 3, False)), field("b", [(4, 5)], T_enum("VarNamesT", 2, True)), field("c", [(8, 11)], T_enum("VarNamesO", 4, False))],
                      debug=True, family="MISC"))
    # field-less structs written as unit / tuple structs
    for i, (u, base, dflt) in enumerate(((";", 8, None), ("();", 16, {"form": "=", "value": 0xBEEF}), (";", 24, {"form": ":", "value": 0x123456}), ("();", 128, None))):
        out.append(struct(mod, "Unit%d" % i, base, [], default=dflt, family="MISC", extra={"unit": u}))
    # write-only / unspecified-access fields named like generated methods and constants (no getter, so no clash)
    fs = [field("builder", [(0, 3)], T_uint(4), access="w"), field("build", [(4, 7)], T_uint(4), access="w"), field("raw_value", [(8, 11)], T_uint(4), access="w"),
          field("new", [(12, 12)], T_bool(), access="w"), field("default", [(13, 15)], T_uint(3), access=""), field("plain", [(16, 23)], T_uint(8)),
          field("new_with_raw_value", [(24, 27)], T_uint(4), access="w"), field("zero", [(28, 31)], T_uint(4), access="w")]
    for dflt in (None, {"form": "=", "value": 0xA5A5_0000}):
        out.append(struct(mod, "MethodNames%s" % ("d" if dflt else "n"), 32, json.loads(json.dumps(fs)), default=dflt, family="MISC"))
    out.append(struct(mod, "MethodNamesFull", 8, [field("builder", [(0, 3)], T_uint(4), access="w"), field("build", [(4, 7)], T_uint(4), access="w")], family="MISC"))
    # the whole base through a one-entry list (read-only and read-write), every native storage
    for base in (8, 16, 32, 64, 128):
        out.append(struct(mod, "ListFullR%d" % base, base, [field("all", [(0, base - 1)], T_uint(base), access="r", force_list=True)], family="MISC"))
        out.append(struct(mod, "ListFullS%d" % base, base, [field("all", [(0, base - 1)], T_int(base), access="r", force_list=True), field("low", [(0, 0)], T_bool())], default={"form": "=", "value": 1 << (base - 1)}, family="MISC"))
    # full bit reversals (descending single-bit lists) that do not start at bit 0, scalar and array, native and arbitrary element types
    for i, (base, off, w, arr) in enumerate(((32, 8, 8, None), (32, 16, 16, None), (64, 32, 32, None), (64, 8, 8, 3), (128, 64, 64, None), (24, 12, 12, None), (32, 4, 8, None), (128, 32, 16, 4))):
        rs = [(off + w - 1 - k, off + w - 1 - k) for k in range(w)]
        f = field("rev", rs, T_uint(w), array=({"k": arr, "stride": w + 4} if arr else None))
        fs = [f, field("lowbits", [(0, min(off, 8) - 1)], T_uint(min(off, 8)))]
        s_ = struct(mod, "Rev%d" % i, base, fs, default=({"form": "=", "value": (1 << base) - 1} if i % 2 else None), family="MISC")
        add_const_witnesses(s_, seed, maxn=2)
        out.append(s_)
    # a user item called `core` next to the declarations (generated code must name ::core)
    cm = "misc_corectx"
    out.append({"kind": "raw", "mod": cm, "name": "core", "path": "%s::core" % cm, "defines": ["core"],
                "lines": ["/// a user module that happens to be called `core` (per-core registers of an SoC)", "pub mod core {", "    /// how many", "    pub const COUNT: usize = 2;", "}"]})
    ce = mk_enum(cm, "CoreSel", 2, [0, 1, 2], family="MISC")
    cn = struct(cm, "CoreInner", 4, [field("x", [(0, 3)], T_uint(4))], debug=True, family="MISC")
    out += [ce, cn]
    fs = [field("sel", [(0, 1)], T_enum("CoreSel", 2, False)), field("run", [(2, 2)], T_bool()), field("inner", [(4, 7)], T_nested("CoreInner", 4)), field("cnt", [(8, 15)], T_int(8)),
          field("lanes", [(16, 17)], T_uint(2), array={"k": 4, "stride": None}, access="rw"), field("nc", [(24, 25), (28, 29)], T_uint(4))]
    for dflt in (None, {"form": "=", "value": 0x1234_5678}):
        s_ = struct(cm, "CoreCtx%s" % ("d" if dflt else "n"), 32, json.loads(json.dumps(fs)), default=dflt, family="MISC")
        add_const_witnesses(s_, seed, maxn=2)
        out.append(s_)
    out.append(struct(cm, "CoreCtxDbg", 16, json.loads(json.dumps(fs[:4])), debug=True, default={"form": "=", "value": 7}, family="MISC"))
    # a field next to another one whose name is its `with_` / `set_` form (the prefixed one has no getter, so no clash)
    fs = [field("crc", [(0, 0)], T_bool()), field("with_crc", [(1, 1)], T_bool(), access="w"), field("point", [(2, 5)], T_uint(4)), field("set_point", [(6, 7)], T_uint(2), access="w"),
          field("level", [(8, 11)], T_uint(4)), field("with_level", [(12, 15)], T_uint(4), access=""), field("len", [(16, 23)], T_uint(8)), field("set_len", [(24, 31)], T_int(8), access="w")]
    for dflt in (None, {"form": "=", "value": 0x8000_0080}):
        s_ = struct(mod, "PrefixNames%s" % ("d" if dflt else "n"), 32, json.loads(json.dumps(fs)), default=dflt, family="MISC")
        add_const_witnesses(s_, seed, maxn=2)
        out.append(s_)
    out.append(struct(mod, "PrefixNamesFull", 8, [field("crc", [(0, 3)], T_uint(4)), field("with_crc", [(4, 7)], T_uint(4), access="w")], family="MISC"))
    # field documentation that mentions `Self::…`, and `#[doc(hidden)]` / `#[doc(alias = ..)]` on fields (with and without debug)
    fs = [field("enable", [(0, 0)], T_bool(), doc=["enable; only effective while [`Self::mode`] is not zero"]),
          field("mode", [(1, 3)], T_uint(3), doc=["see `Self::enable` and Self::raw_value"]),
          field("reserved", [(4, 7)], T_uint(4), doc=["kept out of the docs"]),
          field("status", [(8, 15)], T_int(8), access="r", doc=["status"])]
    fs[2]["fattrs"] = ["#[doc(hidden)]"]
    fs[3]["fattrs"] = ["#[doc(alias = \"hidden\")]"]
    for i, (dflt, dbg) in enumerate(((None, False), ({"form": "=", "value": 0x1234}, False), ({"form": "=", "value": 0x55AA}, True), (None, True))):
        out.append(struct(mod, "DocSelf%d" % i, 16, json.loads(json.dumps(fs)), default=dflt, debug=dbg, family="MISC"))
    # a repr narrower than the storage class of the enum's width (all discriminants fit it)
    for bits, rp in ((12, "u8"), (16, "u8"), (9, "u8"), (24, "u16"), (33, "u32")):
        e = mk_enum(mod, "ReprNarrow%d" % bits, bits, [0, 1, 200], family="MISC")
        e["repr"] = rp
        out.append(e)
    out.append(struct(mod, "UsesReprNarrow", 32, [field("a", [(0, 11)], T_enum("ReprNarrow12", 12, False)), field("b", [(16, 24)], T_enum("ReprNarrow9", 9, False))], family="MISC"))
    # user items called Ok / Err in scope (glob-imported variants shadow the prelude's)
    om = "misc_okctx"
    out.append({"kind": "raw", "mod": om, "name": "Health", "path": "%s::Health" % om, "defines": ["Health"],
                "lines": ["/// a user enum whose variants are called Ok and Err", "#[derive(Clone, Copy, PartialEq, Eq, Debug)]", "pub enum Health {", "    /// fine", "    Ok,", "    /// not fine", "    Err,", "}",
                          "#[allow(unused_imports)]", "pub use self::Health::*;"]})
    on = struct(om, "OkInner", 4, [field("x", [(0, 3)], T_uint(4))], debug=True, family="MISC")
    out.append(on)
    fs = [field("run", [(0, 0)], T_bool()), field("inner", [(4, 7)], T_nested("OkInner", 4)), field("cnt", [(8, 13)], T_uint(6)), field("s", [(16, 23)], T_int(8)),
          field("lanes", [(14, 14)], T_bool(), array={"k": 2, "stride": None})]
    for i, (base, dflt) in enumerate(((24, {"form": "=", "value": 0x567}), (24, {"form": "const=", "value": 0xABCDE}), (32, {"form": ":", "value": 0x1234_5678}), (14 + 10, None))):
        s_ = struct(om, "OkCtx%d" % i, base, json.loads(json.dumps(fs)), default=dflt, family="MISC")
        add_const_witnesses(s_, seed, maxn=1)
        out.append(s_)
    out.append(struct(om, "OkCtxDbg", 14, json.loads(json.dumps(fs[:3])), debug=True, default={"form": "=", "value": 0x2AAA}, family="MISC"))
    # user traits called Copy / Clone in scope: the generated types must still be core Copy + Clone (seeded C06_r13:
    # hand-written `impl Copy for X {}` with a bare trait name implements the user's trait instead)
    cm = "misc_copyctx"
    out.append({"kind": "raw", "mod": cm, "name": "Copy", "path": "%s::Copy" % cm, "defines": ["Copy", "Clone"],
                "lines": ["/// a user trait called Copy", "pub trait Copy {", "    /// tag", "    fn tag(&self) -> u8 {", "        1", "    }", "}",
                          "/// a user trait called Clone", "pub trait Clone {}"]})
    out.append(struct(cm, "CpInner", 4, [field("x", [(0, 3)], T_uint(4))], debug=True, family="MISC"))
    cfs = [field("run", [(0, 0)], T_bool()), field("inner", [(4, 7)], T_nested("CpInner", 4)), field("cnt", [(8, 13)], T_uint(6)), field("s", [(16, 23)], T_int(8))]
    for i, (base, dflt, dbg) in enumerate(((24, {"form": "=", "value": 0x567}, False), (32, None, True), (24, None, False))):
        out.append(struct(cm, "CpCtx%d" % i, base, json.loads(json.dumps(cfs)), default=dflt, debug=dbg, family="MISC"))
    out.append(mk_enum(cm, "CpEnum", 2, [0, 1, 3], family="MISC"))
    out.append({"kind": "raw", "mod": cm, "name": "cp_probe", "path": "%s::cp_probe" % cm, "prop": "C06", "clause": "generated types are core Copy + Clone in a module that defines its own Copy / Clone traits",
                "lines": ["/// needs core Copy + Clone", "pub const fn need<T: ::core::marker::Copy + ::core::clone::Clone>() {}",
                          "/// the probes", "pub const CP_PROBE: () = {", "    need::<CpInner>();", "    need::<CpCtx0>();", "    need::<CpCtx1>();", "    need::<CpCtx2>();", "    need::<CpEnum>();", "};",
                          "/// use after move needs Copy", "pub fn cp_dup(w: CpCtx0, e: CpEnum) -> (CpCtx0, CpCtx0, CpEnum, CpEnum) {", "    (w, w, e, e)", "}"]})
    # a permuted view and a plain view of the same bits with the same type, both readable (either order)
    for i, (base, w, off) in enumerate(((16, 8, 0), (32, 8, 8), (24, 8, 16), (64, 16, 32))):
        hw = w // 2
        perm = field("perm", [(off + hw, off + w - 1), (off, off + hw - 1)], T_uint(w), access="r")
        plain = field("plain", [(off, off + w - 1)], T_uint(w), access="r")
        rev = field("rev", [(off + w - 1 - k, off + w - 1 - k) for k in range(w)], T_uint(w), access="rw")
        sel = field("sel", [(off + 1, off + 3)], T_uint(3))
        out.append(struct(mod, "AliasPerm%da" % i, base, [perm, plain, rev, sel], family="MISC"))
        out.append(struct(mod, "AliasPerm%db" % i, base, json.loads(json.dumps([plain, rev, perm, sel])), default={"form": "=", "value": 0x1234_5678_9ABC_DEF0 & ((1 << base) - 1)}, debug=True, family="MISC"))
    # literal defaults with a type suffix on arbitrary-int bases (the suffix is the storage integer's)
    for i, (lit, val, base) in enumerate([("0xAB_3456u32", 0xAB3456, 24), ("0xA5Fu16", 0xA5F, 12), ("65u8", 65, 7), ("0x1_0000_0000u64", 1 << 32, 48), ("7u128", 7, 100), ("1_u8", 1, 1)]):
        for form in ("=", ":"):
            out.append(struct(mod, "LitSfx%d%s" % (i, "e" if form == "=" else "c"), base, [field("b0", [(0, 0)], T_bool()), field("top", [(base - 1, base - 1)], T_bool(), access="r")],
                              default={"form": form, "value": val, "lit": lit}, family="MISC"))
    # the same variant name declared twice under mutually exclusive cfgs with different discriminants
    out.append(enum("en_cond", "CndDup3", 3, [("A", 0, None), ("Reset", 1, "on"), ("Reset", 5, "off"), ("B", 2, None)], "conditional", family="MISC"))
    out.append(enum("en_cond", "CndDup2", 2, [("Reset", 3, "off"), ("Reset", 2, "on"), ("A", 0, None), ("B", 1, None), ("Reset2", 3, "on")], "conditional", family="MISC"))
    # documentation with a fenced example, #[non_exhaustive] next to `debug`
    fs = [field("divider", [(0, 7)], T_uint(8), doc=["the divider", "", "```", "let d = 3u8;", "assert_eq!(d, 3);", "```"]), field("on", [(8, 8)], T_bool(), doc=["on", "```text", "not code", "```"]),
          field("st", [(9, 11)], T_uint(3), access="r", doc=["status"])]
    for i, (dflt, dbg, attrs) in enumerate(((None, False, []), ({"form": "=", "value": 0x0123}, True, ["#[non_exhaustive]"]), (None, True, ["#[non_exhaustive]", "#[allow(dead_code)]"]))):
        out.append(struct(mod, "DocFence%d" % i, 16, json.loads(json.dumps(fs)), default=dflt, debug=dbg, family="MISC", extra={"attrs": attrs}))
    # zero fields
    out.append(struct(mod, "Empty8n", 8, [], family="MISC"))
    out.append(struct(mod, "Empty8d", 8, [], default={"form": "=", "value": 7}, family="MISC"))
    out.append(struct(mod, "Empty24d", 24, [], default={"form": "=", "value": 0xABCDEF}, family="MISC"))
    out.append(struct(mod, "Empty128d", 128, [], default={"form": "=", "value": 1 << 100}, debug=True, family="MISC"))
    # enums: legacy `exhaustive: x`, no derives, explicit repr, 1-variant enums
    e = mk_enum(mod, "LegacyT", 2, [3, 2, 1, 0], family="MISC")
    e["legacy_colon"] = True
    out.append(e)
    e = mk_enum(mod, "LegacyF", 3, [5, 1], family="MISC")
    e["legacy_colon"] = True
    out.append(e)
    e = mk_enum(mod, "LegacyC", 2, [0, 2], exh="conditional", family="MISC")
    e["legacy_colon"] = True
    out.append(e)
    e = mk_enum(mod, "NoDerive", 2, [0, 1, 2, 3], family="MISC")
    e["no_derives"] = True
    out.append(e)
    e = mk_enum(mod, "NoDeriveO", 5, [7, 31], family="MISC")
    e["no_derives"] = True
    out.append(e)
    for bits, rp in ((8, "u8"), (3, "u8"), (16, "u16"), (12, "u16"), (32, "u32"), (20, "u32"), (64, "u64"), (40, "u64")):
        e = mk_enum(mod, "Repr%d" % bits, bits, [0, (1 << bits) - 1, 1 << (bits - 1)], family="MISC")
        e["repr"] = rp
        out.append(e)
    # fields typed by those enums (no derives needed by generated code)
    out.append(struct(mod, "UsesNoDerive", 8, [field("a", [(0, 1)], T_enum("NoDerive", 2, True)), field("b", [(2, 6)], T_enum("NoDeriveO", 5, False))], family="MISC"))
    for d in out:
        if d["kind"] == "enum":
            add_enum_consts(d)
    return out


# ------------------------------------------------------------------ API twins (compile-pass side of E0599 witnesses)


def chunk(lst, n):
    return [lst[i:i + n] for i in range(0, len(lst), n)]


def build_positive(tier, seed, harvested):
    """returns list of Crate objects"""
    crates = []

    def pack(prefix, decls, per):
        # keep modules intact but split into several crates for parallel compilation
        for i, part in enumerate(chunk(decls, per)):
            c = Crate("pos_%s_%d" % (prefix, i))
            for d in part:
                c.add(d)
            crates.append(c)

    cont = fam_cont(tier, harvested, seed)
    # balance by number of fields
    groups = []
    cur = []
    curn = 0
    for s in cont:
        cur.append(s)
        curn += len(s["fields"])
        if curn >= (900 if tier == "quick" else 1300):
            groups.append(cur)
            cur = []
            curn = 0
    if cur:
        groups.append(cur)
    for i, g in enumerate(groups):
        c = Crate("pos_cont_%d" % i)
        for d in g:
            c.add(d)
        crates.append(c)
    pack("abase", fam_abase(tier, seed), 120 if tier == "quick" else 60)
    pack("arr", fam_arr(tier, harvested, seed), 60)
    pack("nc", fam_nc(tier, seed), 25)
    pack("enum", fam_enum(tier, seed), 150)
    # custom types must stay in one crate (fields refer to the enums)
    c = Crate("pos_custom_0")
    for d in fam_custom(tier, seed):
        c.add(d)
    crates.append(c)
    pack("def", fam_def(tier, seed), 200)
    c = Crate("pos_build_0")
    for d in fam_build(tier, seed):
        c.add(d)
    crates.append(c)
    zoo = fam_zoo(tier, seed)
    helpers, rest = zoo[:5], zoo[5:]
    per = 45 if tier == "quick" else 60
    for i, part in enumerate(chunk(rest, per)):
        c = Crate("pos_zoo_%d" % i)
        for d in helpers:
            c.add(json.loads(json.dumps(d)))
        for d in part:
            c.add(d)
        crates.append(c)
    rh, rest = fam_rnd(tier, seed)
    for i, part in enumerate(chunk(rest, 70 if tier == "quick" else 90)):
        c = Crate("pos_rnd_%d" % i)
        for d in rh:
            c.add(json.loads(json.dumps(d)))
        for d in part:
            c.add(d)
        crates.append(c)
    mh, rest = fam_macro(tier, seed)
    for i, part in enumerate(chunk(rest, 60)):
        c = Crate("pos_mac_%d" % i)
        for d in mh:
            d2 = json.loads(json.dumps(d))
            d2["family"] = "MACRO"
            c.add(d2)
        for d in part:
            c.add(d)
        crates.append(c)
    c = Crate("pos_misc_0")
    for d in fam_acc(tier, seed) + fam_dbg(tier, seed):
        c.add(d)
    crates.append(c)
    c = Crate("pos_misc_1")
    for d in fam_misc(tier, seed):
        c.add(d)
    crates.append(c)
    return crates


if __name__ == "__main__":
    import sys
    tier = sys.argv[1] if len(sys.argv) > 1 else "quick"
    crates = build_positive(tier, 0, [])
    tot = 0
    for c in crates:
        src, decls = c.render()
        nf = sum(len(d.get("fields", [])) for d in decls)
        tot += nf
        print(c.name, len(decls), "decls", nf, "fields", len(src), "bytes")
    print("total fields", tot)
