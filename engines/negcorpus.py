#!/usr/bin/env python3
"""Must-fail corpus (DESIGN.md C09/C10/C14/C17): filled in below."""


def build_negative(tier, seed):
    return []
