#!/usr/bin/env python3
"""Must-fail corpus: declarations the stated rules classify as invalid (C09, C10), programs that
use an API which must not exist (C14, C17), and regime fixtures (C18).  Every witness owns a line
range in its crate; the judge requires at least one rustc error attributed to that range.
Each must-fail declaration has a just-valid twin in the positive crate `pos_twin_0`."""
from corpus import (Crate, T_bool, T_enum, T_int, T_uint, enum, field, is_native, mk_enum, render_enum, render_struct,
                    storage_of, struct)


def raw_item(mod, name, lines, prop, clause, expect_code=None, extra=None):
    d = {"kind": "neg", "mod": mod, "name": name, "path": "%s::%s" % (mod, name), "lines": lines, "prop": prop, "clause": clause,
         "expect_code": expect_code}
    if extra:
        d.update(extra)
    return d


def neg_struct(mod, name, base, fields, prop, clause, default=None):
    s = struct(mod, name, base, fields, default=default, family="NEG")
    lines = render_struct(s)
    from corpus import imports_of
    return raw_item(mod, name, lines, prop, clause, extra={"text": "\n".join(lines), "base": base, "imports": sorted(imports_of(s)), "model": s,
                                                           "shape": [[f["ranges"], f["ty"], f["array"]] for f in fields]})


BASES = [8, 16, 32, 64, 128, 7, 12, 24, 48, 100]


def decl_pairs(tier):
    """list of (clause, invalid struct args, valid twin struct args); args = (base, fields)"""
    out = []
    n = [0]

    def add(clause, base, bad_fields, good_fields):
        n[0] += 1
        out.append((clause, n[0], base, bad_fields, good_fields))

    for base in BASES:
        S = storage_of(base)
        top = base - 1
        # ---- type width vs selected bits
        for w in sorted({1, 2, 3, 7, 8, 9, 15, 16, 17, min(base, 31), min(base, 33)}):
            if w + 1 > base or w < 1:
                continue
            # unsigned type one bit too wide / too narrow
            add("width: u%d on %d bits" % (w + 1, w), base, [field("x", [(0, w - 1)], T_uint(w + 1))], [field("x", [(0, w - 1)], T_uint(w))])
            if w >= 2:
                add("width: u%d on %d bits" % (w - 1, w), base, [field("x", [(0, w - 1)], T_uint(w - 1))], [field("x", [(0, w - 1)], T_uint(w))])
            if is_native(w):
                add("width: i%d on %d bits" % (w, w + 1), base, [field("x", [(0, w)], T_int(w))], [field("x", [(0, w - 1)], T_int(w))])
                if w >= 2:
                    add("width: i%d on %d bits" % (w, w - 1), base, [field("x", [(0, w - 2)], T_int(w))], [field("x", [(0, w - 1)], T_int(w))])
        if base >= 3:
            add("width: bool on 2 bits", base, [field("x", [(1, 2)], T_bool())], [field("x", [(1, 1)], T_bool())])
            add("width: bool on a list of two bits", base, [field("x", [(0, 0), (2, 2)], T_bool())], [field("x", [(2, 2)], T_bool(), force_list=True, syn=1)])
            add("width: list total 3 bits typed u2", base, [field("x", [(0, 0), (1, 2)], T_uint(2))], [field("x", [(0, 0), (1, 2)], T_uint(3))])
            add("width: list total 2 bits typed u3", base, [field("x", [(2, 2), (0, 0)], T_uint(3))], [field("x", [(2, 2), (0, 0)], T_uint(2))])
        # ---- lo <= hi
        if base >= 4:
            add("range: hi < lo", base, [field("x", [(3, 1)], T_uint(3))], [field("x", [(1, 3)], T_uint(3))])
            add("range: hi < lo in a list", base, [field("x", [(0, 0), (3, 2)], T_uint(3))], [field("x", [(0, 0), (2, 3)], T_uint(3))])
            # a reversed range hidden in a list whose other ranges already match the type width
            add("range: reversed range in a list whose other ranges match the type", base, [field("x", [(0, 1), (3, 2)], T_uint(2))], [field("x", [(0, 1)], T_uint(2), force_list=True)])
            if base >= 8:
                add("range: reversed range (hi <= lo-2) in a list", base, [field("x", [(0, 3), (7, 5)], T_uint(4))], [field("x", [(0, 3)], T_uint(4), force_list=True)])
                add("range: reversed range first in a list", base, [field("x", [(7, 5), (0, 3)], T_uint(4))], [field("x", [(5, 7), (0, 3)], T_uint(7))])
        # ---- arrays: count and stride
        if base >= 4:
            add("array: one element", base, [field("x", [(0, 1)], T_uint(2), array={"k": 1, "stride": None})], [field("x", [(0, 1)], T_uint(2), array={"k": 2, "stride": None})])
            add("array: zero elements", base, [field("x", [(0, 1)], T_uint(2), array={"k": 0, "stride": None})], [field("x", [(0, 1)], T_uint(2), array={"k": 2, "stride": None})])
            add("array: stride smaller than element", base, [field("x", [(0, 1)], T_uint(2), array={"k": 2, "stride": 1})], [field("x", [(0, 1)], T_uint(2), array={"k": 2, "stride": 2})])
            add("array: non-contiguous without stride", base, [field("x", [(0, 0), (2, 2)], T_uint(2), array={"k": 2, "stride": None})],
                [field("x", [(0, 0), (2, 2)], T_uint(2), array={"k": 2, "stride": 1})])
            # the element-count rule must not depend on how the element's bits are written
            add("array: one element (range list with stride)", base, [field("x", [(0, 0), (2, 2)], T_uint(2), array={"k": 1, "stride": 4})],
                [field("x", [(0, 0), (2, 2)], T_uint(2), array={"k": 2, "stride": 1})])
            add("array: zero elements (range list with stride)", base, [field("x", [(0, 0), (2, 2)], T_uint(2), array={"k": 0, "stride": 4})],
                [field("x", [(0, 0), (2, 2)], T_uint(2), array={"k": 2, "stride": 1})])
            add("array: one element (one-entry list with stride)", base, [field("x", [(0, 1)], T_uint(2), array={"k": 1, "stride": 2}, force_list=True)],
                [field("x", [(0, 1)], T_uint(2), array={"k": 2, "stride": 2}, force_list=True)])
            add("array: one bool element", base, [field("x", [(1, 1)], T_bool(), array={"k": 1, "stride": None})], [field("x", [(1, 1)], T_bool(), array={"k": 2, "stride": None})])
            add("array: one element with explicit stride", base, [field("x", [(0, 1)], T_uint(2), array={"k": 1, "stride": 2})], [field("x", [(0, 1)], T_uint(2), array={"k": 2, "stride": 2})])
        if base >= 8:
            add("array: bool stride 0", base, [field("x", [(0, 0)], T_bool(), array={"k": 2, "stride": 0})], [field("x", [(0, 0)], T_bool(), array={"k": 2, "stride": 1})])
        # ---- bounds against the declared base width
        add("bounds: single bit at base width", base, [field("x", [(base, base)], T_bool())], [field("x", [(top, top)], T_bool())])
        add("bounds: u1 bit at base width", base, [field("x", [(base, base)], T_uint(1))], [field("x", [(top, top)], T_uint(1))])
        if base >= 3:
            add("bounds: range ends one past the top", base, [field("x", [(base - 2, base)], T_uint(3))], [field("x", [(base - 3, top)], T_uint(3))])
            add("bounds: list reaches one past the top", base, [field("x", [(0, 0), (base, base)], T_uint(2))], [field("x", [(0, 0), (top, top)], T_uint(2))])
        if base >= 6:
            # the out-of-base range is not the last one listed
            add("bounds: list whose first range lies beyond the top", base, [field("x", [(base, base + 1), (0, 1)], T_uint(4))], [field("x", [(base - 2, top), (0, 1)], T_uint(4))])
            add("bounds: list whose middle range reaches one past the top", base, [field("x", [(0, 0), (top, base), (2, 2)], T_uint(4))], [field("x", [(0, 0), (base - 2, top), (2, 2)], T_uint(4))])
            add("bounds: array of lists whose first range overruns", base, [field("x", [(base - 2, base - 2), (0, 0)], T_uint(2), array={"k": 3, "stride": 1})],
                [field("x", [(base - 3, base - 3), (0, 0)], T_uint(2), array={"k": 3, "stride": 1})])
        if S != base:
            # inside the storage integer but outside the declared base
            add("bounds: field in the storage padding", base, [field("x", [(base, S - 1)], T_uint(S - base))], [field("x", [(0, S - base - 1)], T_uint(S - base))])
            add("bounds: top storage bit", base, [field("x", [(S - 1, S - 1)], T_bool())], [field("x", [(top, top)], T_bool())])
            if base >= 8:
                add("bounds: 8-bit field straddling the base top", base, [field("x", [(base - 4, base + 3)], T_uint(8))], [field("x", [(base - 8, top)], T_uint(8))])
        add("bounds: far beyond the storage", base, [field("x", [(S + 8, S + 8)], T_bool())], [field("x", [(0, 0)], T_bool())])
        if S < 128:
            add("bounds: range beyond the storage", base, [field("x", [(S, S + 2)], T_uint(3))], [field("x", [(0, 2)], T_uint(3))])
        if base >= 4:
            w = 2
            kfit = base // w
            add("bounds: last array element one bit too high", base,
                [field("x", [(0, w - 1)], T_uint(w), array={"k": kfit + 1, "stride": None})],
                [field("x", [(0, w - 1)], T_uint(w), array={"k": kfit, "stride": None})])
            add("bounds: strided array overruns the base", base,
                [field("x", [(0, 0)], T_bool(), array={"k": 3, "stride": (base + 1) // 2})],
                [field("x", [(0, 0)], T_bool(), array={"k": 2, "stride": base - 1})])
            # positions / strides that wrap the generator's own usize arithmetic (a generator built without overflow
            # checks, as `cargo build --release` does, must still reject them)
            M = 1 << 64
            add("bounds: stride 2^64-1 wraps the bounds computation", base,
                [field("x", [(0, 0)], T_bool(), array={"k": 2, "stride": M - 1})],
                [field("x", [(0, 0)], T_bool(), array={"k": 2, "stride": base - 1})])
            add("bounds: stride 2^63 times two wraps to zero", base,
                [field("x", [(0, 1)], T_uint(2), array={"k": 3, "stride": M // 2})],
                [field("x", [(0, 1)], T_uint(2), array={"k": 2, "stride": 2})])
            add("bounds: stride 2^64-6 with a list", base,
                [field("x", [(0, 0), (2, 2)], T_uint(2), array={"k": 2, "stride": M - 6})],
                [field("x", [(0, 0), (2, 2)], T_uint(2), array={"k": 2, "stride": 1})])
            add("bounds: single bit at 2^64-1", base, [field("x", [(M - 1, M - 1)], T_bool())], [field("x", [(top, top)], T_bool())])
            add("bounds: range up to 2^64-1", base, [field("x", [(M - 2, M - 1)], T_uint(2))], [field("x", [(base - 2, top)], T_uint(2))])
            add("bounds: list with a bit at 2^64-1", base, [field("x", [(0, 0), (M - 1, M - 1)], T_uint(2))], [field("x", [(0, 0), (top, top)], T_uint(2))])
            # numbers spelled with a radix prefix / suffix / fraction: whether the macro refuses the spelling or reads
            # the value, a position at or beyond the base width and a stride below the element width cannot be accepted
            for rdx in ("hex", "bin", "oct", "suffix", "float"):
                bad = field("x", [(base, base)], T_bool())
                bad["radix"] = rdx
                add("spelling (%s): single bit at the base width" % rdx, base, [bad], [field("x", [(top, top)], T_bool())])
                bad = field("x", [(base - 1, base)], T_uint(2))
                bad["radix"] = rdx
                add("spelling (%s): range ending at the base width" % rdx, base, [bad], [field("x", [(base - 2, top)], T_uint(2))])
                bad = field("x", [(0, 0), (base + 16, base + 16)], T_uint(2))
                bad["radix"] = rdx
                add("spelling (%s): list entry far beyond the base" % rdx, base, [bad], [field("x", [(0, 0), (top, top)], T_uint(2))])
                bad = field("x", [(0, 1)], T_uint(2), array={"k": 2, "stride": 1})
                bad["radix"] = rdx
                add("spelling (%s): stride below the element width" % rdx, base, [bad], [field("x", [(0, 1)], T_uint(2), array={"k": 2, "stride": 2})])
                bad = field("x", [(0, 1), (3, 3)], T_uint(3), array={"k": 3, "stride": base // 2})
                bad["radix"] = rdx
                add("spelling (%s): strided list array overruns the base" % rdx, base, [bad], [field("x", [(0, 1), (3, 3)], T_uint(3), array={"k": 2, "stride": base // 2 - 2})])
            # lists whose entries overlap: the entry that reaches furthest up is neither the last one nor the one
            # that starts highest
            if base >= 8:
                add("bounds: nested list entry, the outer one overruns", base, [field("x", [(base - 3, base + 1), (base - 2, base - 2)], T_uint(6))],
                    [field("x", [(base - 5, top), (base - 2, base - 2)], T_uint(6))])
                add("bounds: equal-start list entries, the longer one overruns", base, [field("x", [(base - 2, base), (base - 2, base - 1)], T_uint(5))],
                    [field("x", [(base - 3, top), (base - 3, base - 2)], T_uint(5))])
                add("bounds: array of overlapping list entries overruns", base, [field("x", [(0, 3), (1, 1)], T_uint(5), array={"k": 2, "stride": base - 3})],
                    [field("x", [(0, 3), (1, 1)], T_uint(5), array={"k": 2, "stride": base - 4})])
            # an invalid field declared after a valid one that names exactly the same bits (a second "view")
            if base >= 8:
                add("bounds: overrunning array after a scalar view of the same range", base,
                    [field("st", [(0, 1)], T_uint(2), access="r"), field("x", [(0, 1)], T_uint(2), access="w", array={"k": base // 2 + 1, "stride": None})],
                    [field("st", [(0, 1)], T_uint(2), access="r"), field("x", [(0, 1)], T_uint(2), access="w", array={"k": base // 2, "stride": None})])
                add("bounds: overrunning strided bool array after a bool view of the same bit", base,
                    [field("st", [(0, 0)], T_bool(), access="r"), field("x", [(0, 0)], T_bool(), access="w", array={"k": 3, "stride": base // 2})],
                    [field("st", [(0, 0)], T_bool(), access="r"), field("x", [(0, 0)], T_bool(), access="w", array={"k": 2, "stride": base // 2})])
                add("width: wrong type after a correct view of the same range", base,
                    [field("st", [(2, 4)], T_uint(3), access="r"), field("x", [(2, 4)], T_uint(4), access="w")],
                    [field("st", [(2, 4)], T_uint(3), access="r"), field("x", [(2, 4)], T_uint(3), access="w")])
            # fields without an access specifier (reserved / padding) are bound by the same rules
            if base >= 8:
                add("no access: range beyond the base", base, [field("x", [(base - 4, base + 3)], T_uint(8), access="")], [field("x", [(base - 8, top)], T_uint(8), access="")])
                add("no access: type wider than the bits", base, [field("x", [(4, 7)], T_uint(8), access="")], [field("x", [(4, 7)], T_uint(4), access="")])
                add("no access: one-element array", base, [field("x", [(0, 3)], T_uint(4), access="", array={"k": 1, "stride": None})], [field("x", [(0, 3)], T_uint(4), access="", array={"k": 2, "stride": None})])
                add("no access: stride below the width", base, [field("x", [(0, 3)], T_uint(4), access="", array={"k": 2, "stride": 2})], [field("x", [(0, 3)], T_uint(4), access="", array={"k": 2, "stride": 4})])
                add("no access: array past the base", base, [field("x", [(0, 3)], T_uint(4), access="", array={"k": base // 4 + 1, "stride": None})], [field("x", [(0, 3)], T_uint(4), access="", array={"k": base // 4, "stride": None})])
                # a range (list) written under the singular attribute name that runs past the base
                bad = field("x", [(base - 4, base + 3)], T_uint(8), force_list=True)
                bad["head"] = "bit"
                add("bounds: list under #[bit] running past the base", base, [bad], [field("x", [(base - 8, top)], T_uint(8), force_list=True)])
                bad = field("x", [(0, 0), (base - 2, base + 1)], T_uint(5))
                bad["head"] = "bit"
                add("bounds: two-entry list under #[bit] running past the base", base, [bad], [field("x", [(0, 0), (base - 4, top)], T_uint(5))])
            add("bounds: non-contiguous array overruns the base", base,
                [field("x", [(0, 0), (base - 2, base - 2)], T_uint(2), array={"k": 3, "stride": 1})],
                [field("x", [(0, 0), (base - 2, base - 2)], T_uint(2), array={"k": 2, "stride": 1})])
    return out


def rule_valid(base, f):
    """C09's acceptance rule, implemented on the model (independent of the macro's parser)"""
    from corpus import fwidth, fcount, fpositions
    for lo, hi in f["ranges"]:
        if lo > hi:
            return False
    w = sum(hi - lo + 1 for lo, hi in f["ranges"])
    ty = f["ty"]
    if ty["k"] == "bool":
        if w != 1:
            return False
    elif ty["w"] != w:
        return False
    a = f["array"]
    if a:
        if a["k"] < 2:
            return False
        if len(f["ranges"]) == 1 and not f.get("force_list"):
            if a["stride"] is not None and a["stride"] < w:
                return False
        elif a["stride"] is None:
            return False
    top = 0
    for i in range(fcount(f)):
        top = max(top, max(fpositions(f, i)))
    return top < base


def rnd_pairs(tier, seed):
    """random rule-valid single-field declarations (same generator as the RND family, plain types only), each
    broken by exactly one randomly chosen rule violation; the unbroken original is the compiling twin"""
    import copy
    import random
    from corpus import rnd_tools, h, fwidth, fcount, fpositions
    rnd = random.Random(h("negrnd", seed, tier))
    tools = rnd_tools(rnd, "negrnd", simple=True)
    out = []
    want = 120 if tier == "quick" else 900
    tries = 0
    while len(out) < want and tries < want * 30:
        tries += 1
        r = rnd.random()
        base = rnd.choice([8, 16, 32, 64, 128]) if r < 0.5 else rnd.choice([3, 5, 7, 9, 12, 15, 17, 24, 31, 33, 48, 63, 65, 100, 127])
        good = tools["free_field"](base, "x")
        good["access"] = rnd.choice(["rw", "r", "w", "rw", "r", "w", ""])  # (a field without accessors is validated like any other)
        if not rule_valid(base, good):
            continue
        if not good["array"] and rnd.random() < 0.45:
            continue  # (half of the witnesses should be arrays: most rules are about them)
        bad = copy.deepcopy(good)
        w = fwidth(good)
        muts = ["wider", "narrower", "bounds"]
        if good["array"]:
            muts += ["k1", "k0", "bounds"]
            if len(good["ranges"]) == 1 and not good.get("force_list") and w >= 2:
                muts.append("stride_small")
            if len(good["ranges"]) > 1:
                muts.append("stride_missing")
        if any(hi > lo for lo, hi in good["ranges"]):
            muts.append("reversed")
        m = rnd.choice(muts)
        k = good["ty"]["k"]
        if m in ("wider", "narrower"):
            if k == "uint":
                nw = w + 1 if m == "wider" else w - 1
                if nw < 1 or nw > 128:
                    continue
                bad["ty"] = T_uint(nw)
            else:
                # bool / iN: the type's width is fixed, so change the number of selected bits instead
                ri = rnd.randrange(len(bad["ranges"]))
                lo, hi = bad["ranges"][ri]
                if m == "wider":
                    if hi == lo:
                        continue
                    bad["ranges"][ri] = [lo, hi - 1]
                else:
                    bad["ranges"][ri] = [lo, hi + 1]
                pos = [p for i in range(fcount(bad)) for p in fpositions(bad, i)]
                if max(pos) >= base or len(set(fpositions(bad, 0))) != len(fpositions(bad, 0)):
                    continue
        elif m == "bounds":
            top = max(p for i in range(fcount(good)) for p in fpositions(good, i))
            sh = base - top  # the highest addressed bit becomes exactly `base`
            bad["ranges"] = [[lo + sh, hi + sh] for lo, hi in bad["ranges"]]
        elif m == "k1":
            bad["array"]["k"] = 1
        elif m == "k0":
            bad["array"]["k"] = 0
        elif m == "stride_small":
            bad["array"]["stride"] = rnd.choice([w - 1, 1, 0]) if w >= 2 else 0
            if bad["array"]["stride"] >= w:
                continue
        elif m == "stride_missing":
            bad["array"]["stride"] = None
        elif m == "reversed":
            cand = [i for i, (lo, hi) in enumerate(bad["ranges"]) if hi > lo]
            ri = rnd.choice(cand)
            lo, hi = bad["ranges"][ri]
            bad["ranges"][ri] = [hi, lo]
        if bad["array"] and bad["array"]["k"] == 0:
            pass
        else:
            try:
                if rule_valid(base, bad):
                    continue
            except ValueError:
                pass
        # a reversed range makes fpositions empty for that range; the oracle above already said "invalid"
        out.append(("random: %s" % m, 100000 + len(out), base, [bad], [good]))
    return out


def enum_cases(tier):
    """(clause, lines or enum model, valid twin enum model or None)"""
    out = []

    def lit_enum(name, bits, exh, variants, attrs=(), exh_first=False):
        args = ["u%d" % bits]
        if exh is not None:
            args.append("exhaustive = %s" % exh)
        if exh_first:
            args.reverse()
        lines = ["/// must-fail enum", "#[bitenum(%s)]" % ", ".join(args), "#[derive(Debug, PartialEq, Eq)]"]
        lines += list(attrs)
        lines.append("pub enum %s {" % name)
        for (vn, expr, cfg) in variants:
            lines.append("    /// v")
            if cfg:
                lines.append("    %s" % cfg)
            lines.append("    %s%s," % (vn, (" = %s" % expr) if expr is not None else ""))
        lines.append("}")
        return lines

    def seq(n, start=0):
        return [("V%d" % i, "%d" % (start + i), None) for i in range(n)]

    n = 0
    for N in range(1, 9 if tier == "thorough" else 6):
        full = 1 << N
        # 2^N - 1 variants claimed exhaustive
        out.append(("exhaustive=true with 2^N-1 variants", lit_enum("E", N, "true", seq(full - 1)), mk_enum("x", "E", N, list(range(full - 1)))))
        # all 2^N present but declared false / omitted
        out.append(("exhaustive=false with all 2^N variants", lit_enum("E", N, "false", seq(full)), mk_enum("x", "E", N, list(range(full)))))
        out.append(("exhaustive omitted with all 2^N variants", lit_enum("E", N, None, seq(full)), mk_enum("x", "E", N, list(range(full)))))
        # 2^N + 1 variants (one discriminant necessarily out of range or duplicated)
        out.append(("2^N+1 variants, exhaustive=true", lit_enum("E", N, "true", seq(full + 1)), None))
        out.append(("2^N+1 variants, exhaustive=false", lit_enum("E", N, "false", seq(full + 1)), None))
        # discriminant = 2^N and 2^N+1
        out.append(("discriminant 2^N", lit_enum("E", N, "false", [("A", "0", None), ("B", "%d" % full, None)][: 2 if full > 2 else 1] if full > 2 else [("B", "%d" % full, None)]),
                    mk_enum("x", "E", N, [0, full - 1] if full > 2 else [full - 1])))
        out.append(("discriminant 2^N+1", lit_enum("E", N, "false", [("B", "%d" % (full + 1), None)]), mk_enum("x", "E", N, [full - 1])))
    # pass-through attributes must not switch the count rules off (seeded C10_r13: #[non_exhaustive])
    for N in (1, 2, 3):
        full = 1 << N
        for at in (("#[non_exhaustive]",), ("#[allow(dead_code)]", "#[non_exhaustive]"), ("#[repr(u8)]", "#[non_exhaustive]")):
            tag = " ".join(at)
            out.append(("%s: exhaustive=true with 2^N-1 variants" % tag, lit_enum("E", N, "true", seq(full - 1), attrs=at), None))
            out.append(("%s: exhaustive=false with all 2^N variants" % tag, lit_enum("E", N, "false", seq(full), attrs=at), None))
            out.append(("%s: exhaustive omitted with all 2^N variants" % tag, lit_enum("E", N, None, seq(full), attrs=at), None))
            out.append(("%s: discriminant 2^N" % tag, lit_enum("E", N, "false", [("B", "%d" % full, None)], attrs=at), None))
    # the oversized discriminant is not the last variant written / is written with a type suffix under a repr
    for N in (1, 2, 3, 5, 7):
        full = 1 << N
        out.append(("discriminant 2^N+1 written first", lit_enum("E", N, "false", [("Big", "%d" % (full + 1), None), ("A", "0", None)] + ([("B", "1", None)] if N > 1 else [])), None))
        if N > 1:
            out.append(("discriminant 2^N written in the middle", lit_enum("E", N, "false", [("A", "0", None), ("Big", "%d" % full, None), ("B", "1", None)]), None))
        out.append(("repr(u8): suffixed discriminant 2^N", lit_enum("E", N, "false", [("A", "0u8", None), ("Big", "%du8" % full, None)], attrs=("#[repr(u8)]",)), None))
        if N <= 3:
            vs = [("V%d" % i, "%du8" % i, None) for i in range(full - 1)] + [("Big", "%du8" % (full + 1), None)]
            out.append(("repr(u8): 2^N variants, a suffixed one oversized, exhaustive=true", lit_enum("E", N, "true", vs, attrs=("#[repr(u8)]",)), None))
    # the count rules with the arguments written in the other order
    for N in (1, 2, 3):
        full = 1 << N
        out.append(("exhaustive=true written before uN, 2^N-1 variants", lit_enum("E", N, "true", seq(full - 1), exh_first=True), mk_enum("x", "E", N, list(range(full - 1)))))
        out.append(("exhaustive=false written before uN, all 2^N variants", lit_enum("E", N, "false", seq(full), exh_first=True), mk_enum("x", "E", N, list(range(full)))))
        out.append(("exhaustive=conditional written before uN, discriminant 2^N", lit_enum("E", N, "conditional", [("A", "0", None), ("B", "%d" % full, "#[cfg(all())]")], exh_first=True),
                    mk_enum("x", "E", N, [0, full - 1])))
    # enums stamped out by macro_rules!: a discriminant that arrives through a fragment is still bound by 2^N
    def mac_enum(N, frag, disc, exh):
        return ["macro_rules! stamp_e {", "    ($name:ident, $v:%s) => {" % frag, "        /// must-fail enum", "        #[bitenum(u%d, exhaustive = %s)]" % (N, exh),
                "        #[derive(Debug, PartialEq, Eq)]", "        pub enum $name {", "            /// a", "            A = 0,", "            /// b", "            B = $v,", "        }", "    };", "}",
                "stamp_e!(E, %d);" % disc]
    for N in (1, 2, 3, 7, 12):
        full = 1 << N
        for frag in ("expr", "literal", "tt"):
            out.append(("macro-stamped: discriminant 2^N through $v:%s" % frag, mac_enum(N, frag, full, "false"), None))
        out.append(("macro-stamped: discriminant 2^N+5 through $v:expr, conditional", mac_enum(N, "expr", full + 5, "conditional"), None))
    # an explicit #[repr(..)] (the storage integer or a wider one) does not relax any rule: rustc then checks the
    # discriminants against the repr type only, the 2^N bound stays the macro's job
    for N, rp in ((1, "u8"), (2, "u8"), (3, "u8"), (7, "u8"), (2, "u16"), (9, "u16"), (12, "u16"), (15, "u16"), (17, "u32"), (24, "u32"), (31, "u32"), (33, "u64"), (48, "u64"), (63, "u64")):
        full = 1 << N
        at = ("#[repr(%s)]" % rp,)
        out.append(("repr(%s): discriminant 2^N" % rp, lit_enum("E", N, "false", [("A", "0", None), ("B", "%d" % full, None)], attrs=at), mk_enum("x", "E", N, [0, full - 1])))
        out.append(("repr(%s): discriminant repr::MAX" % rp, lit_enum("E", N, "false", [("A", "1", None), ("B", "%d" % ((1 << int(rp[1:])) - 1), None)], attrs=at), mk_enum("x", "E", N, sorted({1, full - 1}))))
        if N <= 3:
            vs = seq(full - 1) + [("Big", "%d" % (full + 3), None)]
            out.append(("repr(%s): 2^N variants, one oversized, exhaustive=true" % rp, lit_enum("E", N, "true", vs, attrs=at), mk_enum("x", "E", N, list(range(full)))))
            out.append(("repr(%s): 2^N variants, one oversized, conditional" % rp, lit_enum("E", N, "conditional", vs, attrs=at), mk_enum("x", "E", N, list(range(full)))))
    for N in (1, 2, 3, 4):
        full = 1 << N
        # exactly 2^N variants, but one discriminant does not fit: neither exhaustive nor representable
        vs = seq(full - 1) + [("Big", "%d" % (full + 3), None)]
        vs2 = seq(full - 1) + [("Big", "%d" % full, None)]
        okvs = mk_enum("x", "E", N, list(range(full)))
        out.append(("2^N variants with a discriminant >= 2^N, exhaustive=true", lit_enum("E", N, "true", vs), okvs))
        out.append(("2^N variants with discriminant == 2^N, exhaustive=true", lit_enum("E", N, "true", vs2), okvs))
        out.append(("2^N variants with a discriminant >= 2^N, exhaustive=false", lit_enum("E", N, "false", vs), None))
        out.append(("2^N variants with a discriminant >= 2^N, exhaustive=conditional", lit_enum("E", N, "conditional", vs), None))
        out.append(("discriminant >= 2^N under exhaustive=conditional", lit_enum("E", N, "conditional", [("A", "0", None), ("Big", "%d" % full, None)][: 2 if N > 0 else 1]), None))
    for N in (2, 3, 4, 5):
        full = 1 << N
        # an oversized discriminant that is not the last / not followed by smaller ones only: every declaration order
        out.append(("oversized discriminant in second position", lit_enum("E", N, "false", [("A", "0", None), ("B", "%d" % full, None), ("C", "2", None), ("D", "3", None)]),
                    mk_enum("x", "E", N, [0, full - 1, 2, 3] if N > 2 else [0, 3, 2, 1][:4], exh=None if N > 2 else "true")))
        out.append(("oversized discriminant first", lit_enum("E", N, "false", [("A", "%d" % full, None), ("B", "0", None), ("C", "1", None)]), mk_enum("x", "E", N, [full - 1, 0, 1])))
        out.append(("oversized discriminant between ascending runs", lit_enum("E", N, "false", [("A", "1", None), ("B", "%d" % (full + 1), None), ("C", "0", None), ("D", "2", None)]),
                    mk_enum("x", "E", N, [1, full - 1, 0, 2] if N > 2 else [1, 3, 0, 2], exh=None if N > 2 else "true")))
    # conditional enums may list more than 2^N variants: a discriminant that does not fit must still be rejected,
    # wherever it is declared
    out.append(("conditional: oversized discriminant after the first 2^N variants", lit_enum("E", 1, "conditional",
                [("A", "0", None), ("B", "1", "#[cfg(all())]"), ("C", "1", "#[cfg(any())]"), ("W", "2", None)]), None))
    out.append(("conditional: oversized discriminant last of 2^N+2 variants", lit_enum("E", 2, "conditional",
                [("A", "0", None), ("B", "1", None), ("C", "2", None), ("D", "3", "#[cfg(all())]"), ("D2", "3", "#[cfg(any())]"), ("W", "4", None)]), None))
    out.append(("conditional: oversized discriminant on a cfg-gated variant beyond 2^N", lit_enum("E", 2, "conditional",
                [("A", "0", None), ("B", "1", None), ("C", "2", None), ("D", "3", None), ("W", "9", "#[cfg(all())]")]), None))
    out.append(("conditional: oversized discriminant in the middle of 2^N+1 variants", lit_enum("E", 3, "conditional",
                [("V%d" % i, "%d" % i, None) for i in range(4)] + [("W", "8", None)] + [("V%d" % i, "%d" % i, None) for i in range(4, 8)]), None))
    out.append(("oversized discriminant in second position, exhaustive=true", lit_enum("E", 2, "true", [("A", "0", None), ("B", "4", None), ("C", "2", None), ("D", "3", None)]),
                mk_enum("x", "E", 2, [0, 1, 2, 3])))
    for N in (8, 9, 15, 16, 17, 31, 32, 33, 63):
        full = 1 << N
        out.append(("discriminant 2^N at storage boundary", lit_enum("E", N, "false", [("A", "0", None), ("B", "0x%x" % full, None)]), mk_enum("x", "E", N, [0, full - 1])))
        out.append(("exhaustive=true on a sparse wide enum", lit_enum("E", N, "true", [("A", "0", None), ("B", "0x%x" % (full - 1), None)]), mk_enum("x", "E", N, [0, full - 1])))
    # missing / non-literal discriminants
    out.append(("missing discriminant", lit_enum("E", 2, "false", [("A", "0", None), ("B", None, None)]), mk_enum("x", "E", 2, [0, 1])))
    out.append(("all discriminants missing", lit_enum("E", 2, "true", [("A", None, None), ("B", None, None), ("C", None, None), ("D", None, None)]), mk_enum("x", "E", 2, [0, 1, 2, 3])))
    out.append(("expression discriminant", lit_enum("E", 2, "false", [("A", "0", None), ("B", "1 + 1", None)]), mk_enum("x", "E", 2, [0, 2])))
    out.append(("cast discriminant", lit_enum("E", 2, "false", [("A", "0", None), ("B", "2 as isize", None)]), mk_enum("x", "E", 2, [0, 2])))
    out.append(("constant discriminant", ["/// k", "pub const K2: isize = 2;"] + lit_enum("E", 2, "false", [("A", "0", None), ("B", "K2", None)]), mk_enum("x", "E", 2, [0, 2])))
    out.append(("negative discriminant", lit_enum("E", 2, "false", [("A", "0", None), ("B", "-1", None)]), mk_enum("x", "E", 2, [0, 3])))
    # cfg-gated variants without `conditional`
    for exh in ("false", "true", None):
        out.append(("cfg variant with exhaustive=%s" % exh, lit_enum("E", 2, exh, [("A", "0", None), ("B", "1", "#[cfg(all())]"), ("C", "2", None), ("D", "3", None)][: 4 if exh == "true" else 3]),
                    mk_enum("x", "E", 2, [0, 1, 2, 3][: 4 if exh == "true" else 3], exh="conditional", cfgs={1: "on"})))
    # storage sizes
    out.append(("storage u0", lit_enum("E", 0, "false", [("A", "0", None)]), mk_enum("x", "E", 1, [0])))
    out.append(("storage u65", lit_enum("E", 65, "false", [("A", "0", None)]), mk_enum("x", "E", 64, [0])))
    out.append(("storage u128", lit_enum("E", 128, "false", [("A", "0", None)]), mk_enum("x", "E", 64, [0])))
    # malformed exhaustive values
    for bad in ("maybe", "1", "\"true\""):
        out.append(("exhaustive = %s" % bad, lit_enum("E", 2, bad, [("A", "0", None)]), mk_enum("x", "E", 2, [0])))
    return out


API_PRELUDE = """
    /// access matrix: f0 = r, f1 = w, f2 = rw, f3 = none
    #[bitfield(u32, default = 0)]
    pub struct Acc {
        /// r
        #[bits(0..=2, r)]
        f0: u3,
        /// w
        #[bits(4..=6, w)]
        f1: u3,
        /// rw
        #[bits(8..=10, rw)]
        f2: u3,
        /// none
        #[bits(12..=14)]
        f3: u3,
        /// array r
        #[bit(16, r)]
        a0: [bool; 2],
        /// array w
        #[bit(18, w)]
        a1: [bool; 2],
        /// array rw
        #[bit(20, rw)]
        a2: [bool; 2],
        /// array none
        #[bit(22)]
        a3: [bool; 2],
        /// nc r
        #[bits([24, 26], r)]
        n0: u2,
        /// nc w
        #[bits([25, 27], w)]
        n1: u2,
        /// nc none
        #[bits([28, 30])]
        n3: u2,
    }
    /// enum for access matrix
    #[bitenum(u2, exhaustive = true)]
    pub enum AE {
        /// a
        A = 0,
        /// b
        B = 1,
        /// c
        C = 2,
        /// d
        D = 3,
    }
    /// enum-typed access matrix
    #[bitfield(u8, default = 0)]
    pub struct AccE {
        /// r
        #[bits(0..=1, r)]
        e0: AE,
        /// w
        #[bits(2..=3, w)]
        e1: AE,
        /// rw
        #[bits(4..=5, rw)]
        e2: AE,
        /// none
        #[bits(6..=7)]
        e3: AE,
    }
    /// non-exhaustive enum for access matrix
    #[bitenum(u3, exhaustive = false)]
    pub enum AO {
        /// a
        A = 1,
        /// b
        B = 6,
    }
    /// Option<enum>-typed access matrix (scalar and array)
    #[bitfield(u32, default = 0)]
    pub struct AccO {
        /// r
        #[bits(0..=2, r)]
        o0: Option<AO>,
        /// w
        #[bits(4..=6, w)]
        o1: Option<AO>,
        /// rw
        #[bits(8..=10, rw)]
        o2: Option<AO>,
        /// none
        #[bits(12..=14)]
        o3: Option<AO>,
        /// array w
        #[bits(16..=18, w, stride = 4)]
        p1: [Option<AO>; 2],
        /// array none
        #[bits(24..=26, stride = 4)]
        p3: [Option<AO>; 2],
    }
    /// complete builder, three fields
    #[bitfield(u8)]
    pub struct B3 {
        /// a
        #[bits(0..=1, rw)]
        a: u2,
        /// b
        #[bits(2..=4, w)]
        b: u3,
        /// c
        #[bit(5, rw)]
        c: [bool; 3],
    }
    /// builder with default and a read-only field
    #[bitfield(u16, default = 0x8001)]
    pub struct BD {
        /// a
        #[bits(0..=3, rw)]
        a: u4,
        /// ro
        #[bits(4..=7, r)]
        ro: u4,
        /// b
        #[bits(8..=11, rw)]
        b: u4,
    }
    /// arbitrary base, complete
    #[bitfield(u12)]
    pub struct B12 {
        /// lo
        #[bits(0..=5, rw)]
        lo: u6,
        /// hi
        #[bits(6..=11, rw)]
        hi: u6,
    }
    /// overlapping writable fields: no builder
    #[bitfield(u8, default = 0)]
    pub struct NoB1 {
        /// a
        #[bits(0..=4, rw)]
        a: u5,
        /// b
        #[bits(4..=7, rw)]
        b: u4,
    }
    /// incomplete without default: no builder
    #[bitfield(u8)]
    pub struct NoB2 {
        /// a
        #[bits(0..=4, rw)]
        a: u5,
    }
    /// overlapping array elements: no builder
    #[bitfield(u8, default = 0)]
    pub struct NoB3 {
        /// x
        #[bits([0, 2], rw, stride = 2)]
        x: [u2; 2],
    }
    /// a bitfield with pass-through derives (they belong to the bitfield, not to its builder type)
    #[bitfield(u8)]
    #[derive(Default, PartialEq, Eq, Debug)]
    pub struct BDv {
        /// a
        #[bits(0..=3, rw)]
        a: u4,
        /// b
        #[bits(4..=7, rw)]
        b: u4,
    }
    /// incomplete, and Default is only derived (not a declared default): no builder
    #[bitfield(u8)]
    #[derive(Default, PartialEq, Eq, Debug)]
    pub struct NoB5 {
        /// a
        #[bits(0..=4, rw)]
        a: u5,
    }
    /// incomplete, derive written before the bitfield attribute's sibling attributes: no builder
    #[bitfield(u16)]
    #[allow(dead_code)]
    #[derive(Default)]
    pub struct NoB6 {
        /// a
        #[bits(0..=7, rw)]
        a: u8,
        /// ro
        #[bits(8..=15, r)]
        ro: u8,
    }
    /// self-overlapping range list: no builder
    #[bitfield(u8, default = 0)]
    pub struct NoB4 {
        /// x
        #[bits([0..=3, 2..=5], rw)]
        x: u8,
    }
"""

U3 = "arbitrary_int::u3::new(1)"
U2 = "arbitrary_int::u2::new(1)"


def api_cases():
    """(prop, clause, failing body, compiling twin body); bodies are fn bodies returning ()"""
    c = []
    # C17: absent methods
    c.append(("C17", "r field has no with_", "let _ = Acc::DEFAULT.with_f0(%s);" % U3, "let _ = Acc::DEFAULT.with_f2(%s);" % U3))
    c.append(("C17", "r field has no set_", "let mut s = Acc::DEFAULT; s.set_f0(%s);" % U3, "let mut s = Acc::DEFAULT; s.set_f2(%s);" % U3))
    c.append(("C17", "w field has no getter", "let _ = Acc::DEFAULT.f1();", "let _ = Acc::DEFAULT.f2();"))
    c.append(("C17", "unspecified field has no getter", "let _ = Acc::DEFAULT.f3();", "let _ = Acc::DEFAULT.f0();"))
    c.append(("C17", "unspecified field has no with_", "let _ = Acc::DEFAULT.with_f3(%s);" % U3, "let _ = Acc::DEFAULT.with_f1(%s);" % U3))
    c.append(("C17", "unspecified field has no set_", "let mut s = Acc::DEFAULT; s.set_f3(%s);" % U3, "let mut s = Acc::DEFAULT; s.set_f1(%s);" % U3))
    c.append(("C17", "r array has no with_", "let _ = Acc::DEFAULT.with_a0(0, true);", "let _ = Acc::DEFAULT.with_a2(0, true);"))
    c.append(("C17", "r array has no set_", "let mut s = Acc::DEFAULT; s.set_a0(0, true);", "let mut s = Acc::DEFAULT; s.set_a1(0, true);"))
    c.append(("C17", "w array has no getter", "let _ = Acc::DEFAULT.a1(0);", "let _ = Acc::DEFAULT.a0(0);"))
    c.append(("C17", "unspecified array has no getter", "let _ = Acc::DEFAULT.a3(0);", "let _ = Acc::DEFAULT.a2(0);"))
    c.append(("C17", "unspecified array has no with_", "let _ = Acc::DEFAULT.with_a3(0, true);", "let _ = Acc::DEFAULT.with_a1(0, true);"))
    c.append(("C17", "r non-contiguous field has no with_", "let _ = Acc::DEFAULT.with_n0(%s);" % U2, "let _ = Acc::DEFAULT.with_n1(%s);" % U2))
    c.append(("C17", "w non-contiguous field has no getter", "let _ = Acc::DEFAULT.n1();", "let _ = Acc::DEFAULT.n0();"))
    c.append(("C17", "unspecified non-contiguous field has no getter", "let _ = Acc::DEFAULT.n3();", "let _ = Acc::DEFAULT.n0();"))
    c.append(("C17", "unspecified non-contiguous field has no set_", "let mut s = Acc::DEFAULT; s.set_n3(%s);" % U2, "let mut s = Acc::DEFAULT; s.set_n1(%s);" % U2))
    c.append(("C17", "r enum field has no with_", "let _ = AccE::DEFAULT.with_e0(AE::A);", "let _ = AccE::DEFAULT.with_e2(AE::A);"))
    c.append(("C17", "w enum field has no getter", "let _ = AccE::DEFAULT.e1();", "let _ = AccE::DEFAULT.e0();"))
    c.append(("C17", "unspecified enum field has no getter", "let _ = AccE::DEFAULT.e3();", "let _ = AccE::DEFAULT.e2();"))
    c.append(("C17", "unspecified enum field has no set_", "let mut s = AccE::DEFAULT; s.set_e3(AE::A);", "let mut s = AccE::DEFAULT; s.set_e1(AE::A);"))
    c.append(("C17", "w Option<enum> field has no getter", "let _ = AccO::DEFAULT.o1();", "let _ = AccO::DEFAULT.o2();"))
    c.append(("C17", "unspecified Option<enum> field has no getter", "let _ = AccO::DEFAULT.o3();", "let _ = AccO::DEFAULT.o0();"))
    c.append(("C17", "r Option<enum> field has no with_", "let _ = AccO::DEFAULT.with_o0(AO::A);", "let _ = AccO::DEFAULT.with_o1(AO::A);"))
    c.append(("C17", "unspecified Option<enum> field has no set_", "let mut s = AccO::DEFAULT; s.set_o3(AO::A);", "let mut s = AccO::DEFAULT; s.set_o2(AO::A);"))
    c.append(("C17", "w Option<enum> array has no getter", "let _ = AccO::DEFAULT.p1(0);", "let _ = AccO::DEFAULT.with_p1(0, AO::B);"))
    c.append(("C17", "unspecified Option<enum> array has no getter", "let _ = AccO::DEFAULT.p3(0);", "let _ = AccO::DEFAULT.o0();"))
    c.append(("C17", "unspecified Option<enum> array has no with_", "let _ = AccO::DEFAULT.with_p3(0, AO::B);", "let _ = AccO::DEFAULT.with_p1(1, AO::B);"))
    c.append(("C17", "r field gets no builder step", "let _ = BD::builder().with_ro(arbitrary_int::u4::new(1));", "let _ = BD::builder().with_a(arbitrary_int::u4::new(1));"))
    # C14: incomplete chains
    full = "B3::builder().with_a(%s).with_b(%s).with_c([true, false, true]).build()" % (U2, U3)
    c.append(("C14", "build() right after builder()", "let _ = B3::builder().build();", "let _ = %s;" % full))
    c.append(("C14", "last field missing", "let _ = B3::builder().with_a(%s).with_b(%s).build();" % (U2, U3), "let _ = %s;" % full))
    c.append(("C14", "middle field skipped", "let _ = B3::builder().with_a(%s).with_c([true, false, true]).build();" % U2, "let _ = %s;" % full))
    c.append(("C14", "first field skipped", "let _ = B3::builder().with_b(%s).with_c([true, false, true]).build();" % U3, "let _ = %s;" % full))
    c.append(("C14", "out of declaration order", "let _ = B3::builder().with_b(%s).with_a(%s).with_c([true, false, true]).build();" % (U3, U2), "let _ = %s;" % full))
    c.append(("C14", "field supplied twice", "let _ = B3::builder().with_a(%s).with_a(%s).with_b(%s).with_c([true, false, true]).build();" % (U2, U2, U3), "let _ = %s;" % full))
    fullbd = "BD::builder().with_a(arbitrary_int::u4::new(1)).with_b(arbitrary_int::u4::new(2)).build()"
    c.append(("C14", "default does not excuse a missing field", "let _ = BD::builder().with_a(arbitrary_int::u4::new(1)).build();", "let _ = %s;" % fullbd))
    c.append(("C14", "default does not excuse an empty chain", "let _ = BD::builder().build();", "let _ = %s;" % fullbd))
    full12 = "B12::builder().with_lo(arbitrary_int::u6::new(1)).with_hi(arbitrary_int::u6::new(2)).build()"
    c.append(("C14", "arbitrary base: missing high field", "let _ = B12::builder().with_lo(arbitrary_int::u6::new(1)).build();", "let _ = %s;" % full12))
    c.append(("C14", "no builder for overlapping fields", "let _ = NoB1::builder();", "let _ = NoB1::DEFAULT;"))
    c.append(("C14", "no builder for incomplete cover without default", "let _ = NoB2::builder();", "let _ = NoB2::ZERO;"))
    c.append(("C14", "no builder for incomplete cover whose Default is only derived", "let _ = NoB5::builder();", "let _ = NoB5::default();"))
    c.append(("C14", "no builder for a read-only remainder whose Default is only derived", "let _ = NoB6::builder();", "let _ = NoB6::default();"))
    c.append(("C14", "no builder for overlapping array elements", "let _ = NoB3::builder();", "let _ = NoB3::DEFAULT;"))
    c.append(("C14", "no builder for a self-overlapping range list", "let _ = NoB4::builder();", "let _ = NoB4::DEFAULT;"))
    c.append(("C14", "a later step is not available before an earlier one, not even through the bitfield's own with_", "let _ = BD::builder().with_b(arbitrary_int::u4::new(2));", "let _ = BD::builder().with_a(arbitrary_int::u4::new(2));"))
    c.append(("C14", "the builder type does not hand out the bitfield's accessors", "let _ = BD::builder().a();", "let _ = BD::DEFAULT.a();"))
    c.append(("C14", "the builder type does not hand out raw_value()", "let _ = BD::builder().with_a(arbitrary_int::u4::new(1)).raw_value();", "let _ = BD::DEFAULT.with_a(arbitrary_int::u4::new(1)).raw_value();"))
    c.append(("C14", "a chain that skips a field is not a finished value", "let _: B12 = B12::builder().with_hi(arbitrary_int::u6::new(2));", "let _: B12 = B12::ZERO.with_hi(arbitrary_int::u6::new(2));"))
    fullbdv = "BDv::builder().with_a(arbitrary_int::u4::new(1)).with_b(arbitrary_int::u4::new(2)).build()"
    c.append(("C14", "a complete builder state cannot be conjured through a derive passed on to the builder type", "let _: BDv = PartialBDv::default().build();", "let _: BDv = %s;" % fullbdv))
    c.append(("C14", "an intermediate builder state cannot be conjured either", "let _ = PartialBDv::<15>::default();", "let _ = BDv::default();"))
    return c


def build_negative(tier, seed):
    crates = []
    # ---- declarations (C09)
    neg = Crate("neg_decl_0", kind="neg")
    twin = Crate("pos_twin_0", kind="pos")
    import os
    pairs = decl_pairs(tier) + rnd_pairs(tier, seed)
    for (clause, n, base, bad, good) in pairs:
        mod = "d%d" % n
        neg.add(neg_struct(mod, "W", base, bad, "C09", clause))
        s = struct(mod, "W", base, good, family="TWIN")
        s["twin_of"] = clause
        twin.add(s)
    # ---- access identifiers written side by side without a comma are not a specifier (seeded C17_r13: the last one won)
    for i, (arg, ty, imps) in enumerate([("0, r w", "bool", []), ("0, w r", "bool", []), ("4..=7, rw r", "u4", ["u4"]), ("4..=7, r rw", "u4", ["u4"]),
                                         ("4..=7, w w", "u4", ["u4"]), ("4..=7, r r", "u4", ["u4"]), ("4..=7, rw rw", "u4", ["u4"]),
                                         ("[0, 2], w rw", "u2", ["u2"]), ("1, rw w", "bool", []), ("1, r, stride = 2 w", "[bool; 2]", [])]):
        kind = "bit" if ty in ("bool", "[bool; 2]") else "bits"
        lines = ["/// must-fail: juxtaposed access identifiers", "#[bitfield(u16, default = 0)]", "pub struct W {", "    /// plain", "    #[bits(8..=11, rw)]",
                 "    plain: u4,", "    /// key", "    #[%s(%s)]" % (kind, arg), "    key: %s," % ty, "}"]
        neg.add(raw_item("sx%d" % i, "W", lines, "C17", "access: `%s` is not an access specifier" % arg.split(", ", 1)[1], extra={"imports": sorted(set(imps + ["u4"]))}))
    crates += [neg, twin]
    # ---- enum-typed width mismatches are rejected by the type checker (separate crate: later compiler phase)
    negt = Crate("neg_declty_0", kind="neg")
    n = 0
    for w_enum, w_field in ((2, 3), (2, 1), (3, 2), (1, 2), (8, 7), (8, 9), (16, 8), (8, 16), (9, 8), (12, 16)):
        n += 1
        mod = "t%d" % n
        full = w_enum <= 3
        e = mk_enum(mod, "E", w_enum, list(range(1 << w_enum)) if full else [0, 1])
        lines = render_enum(e)
        f = field("x", [(0, w_field - 1)], T_enum("E", w_field, full))
        s = struct(mod, "W", 32, [f], family="NEG")
        item = raw_item(mod, "W", lines + render_struct(s), "C09", "width: u%d enum on %d bits" % (w_enum, w_field))
        negt.add(item)
        # twin
        e2 = mk_enum(mod, "E", w_enum, list(range(1 << w_enum)) if full else [0, 1], family="TWIN")
        twin.add(e2)
        s2 = struct(mod, "W", 32, [field("x", [(0, w_enum - 1)], T_enum("E", w_enum, full))], family="TWIN")
        twin.add(s2)
    # the same width rule for custom-typed fields that have no getter (write-only): nothing but the setter can notice
    # that the type's raw value is wider or narrower than the selected bits.  (A field with *no* access specifier
    # gets no accessor at all, so a wrong width there cannot yield anything that truncates or aliases: not a witness.)
    for (w_enum, w_field, acc, base, lo, nested) in ((4, 3, "w", 24, 21, False), (4, 2, "w", 8, 0, False), (2, 3, "w", 32, 4, False), (8, 7, "w", 32, 8, False), (7, 8, "w", 32, 8, False),
                                                     (16, 12, "w", 64, 40, False), (3, 2, "w", 7, 5, False), (4, 3, "w", 24, 21, True), (8, 4, "w", 16, 12, True),
                                                     (4, 3, "w", 32, 0, "arr"), (2, 1, "w", 8, 7, False)):
        n += 1
        mod = "t%d" % n
        if nested is True:
            tdecl = struct(mod, "E", w_enum, [field("a", [(0, w_enum - 1)], T_uint(w_enum))], family="NEG")
            lines = render_struct(tdecl)
            from corpus import T_nested
            ty_bad, ty_good = T_nested("E", w_field), T_nested("E", w_enum)
        else:
            e = mk_enum(mod, "E", w_enum, [0, 1, (1 << w_enum) - 1])
            lines = render_enum(e)
            ty_bad, ty_good = T_enum("E", w_field, False), T_enum("E", w_enum, False)
        arr = {"k": 2, "stride": None} if nested == "arr" else None
        f = field("x", [(lo, lo + w_field - 1)], ty_bad, access=acc, array=arr)
        s = struct(mod, "W", base, [f, field("other", [(lo + w_field, lo + w_field)] if lo + w_field < base and not arr else [(base - 1, base - 1)], T_bool())], family="NEG")
        from corpus import imports_of
        item = raw_item(mod, "W", lines + render_struct(s), "C09", "width: u%d %s on %d bits, access `%s`%s" % (w_enum, "nested bitfield" if nested is True else "enum", w_field, acc or "none", " (array)" if arr else ""),
                        extra={"imports": sorted(imports_of(s) | (imports_of(tdecl) if nested is True else set()))})
        negt.add(item)
        if nested is True:
            twin.add(struct(mod, "E", w_enum, [field("a", [(0, w_enum - 1)], T_uint(w_enum))], family="TWIN"))
        else:
            twin.add(mk_enum(mod, "E", w_enum, [0, 1, (1 << w_enum) - 1], family="TWIN"))
        glo = 0
        twin.add(struct(mod, "W", 64, [field("x", [(glo, glo + w_enum - 1)], ty_good, access=acc or "w", array=({"k": 2, "stride": None} if arr else None))], family="TWIN"))
    # hand-written custom types whose raw_value() is wider than what new_with_raw_value() takes (the getter only
    # pins the latter): a readable+writable field of such a type must be rejected as well
    for i, (tin, tout, wbits, base, lo) in enumerate((("u8", "u16", 8, 24, 16), ("arbitrary_int::u4", "arbitrary_int::u6", 4, 12, 8), ("arbitrary_int::u3", "u8", 3, 7, 4))):
        mod = "h%d" % i
        lines = ["/// hand-written custom field type with asymmetric conversions", "#[derive(Clone, Copy, Debug, PartialEq, Eq)]", "pub struct Odd(pub u32);", "impl Odd {",
                 "    /// from raw", "    pub const fn new_with_raw_value(v: %s) -> Self {" % tin, "        Odd(%s as u32)" % ("v" if tin.startswith("u") and not tin.startswith("u3") and "::" not in tin else "v.value()"), "    }",
                 "    /// to raw", "    pub const fn raw_value(self) -> %s {" % tout,
                 "        %s" % (("self.0 as %s" % tout) if "::" not in tout else ("%s::new(self.0 as u8)" % tout)), "    }", "}",
                 "/// witness", "#[bitfield(u%d)]" % base, "pub struct W {", "    /// x", "    #[bits(%d..=%d, rw)]" % (lo, lo + wbits - 1), "    x: Odd,", "    /// low", "    #[bit(0, rw)]", "    low: bool,", "}"]
        negt.add(raw_item(mod, "W", lines, "C09", "width: hand-written type taking %s but returning %s on %d bits, access `rw`" % (tin, tout, wbits), extra={"imports": ["u%d" % base] if base not in (8, 16, 32, 64, 128) else []}))
        # (the field ends at the top bit of an arbitrary-int base: accepted, its setter would write above bit N-1)
        negt.add(raw_item(mod + "b", "W", lines, "C11", "hidden state: hand-written type returning %s on the top %d bits of u%d" % (tout, wbits, base), extra={"imports": ["u%d" % base] if base not in (8, 16, 32, 64, 128) else []}))
    # `debug` needs a getter for every field: write-only / unspecified / array fields must not get one
    for i, (clause, prop, acc, arr) in enumerate([
            ("debug with a write-only field must not compile (w fields have no getter)", "C17", "w", None),
            ("debug with an unspecified-access field must not compile (no getter)", "C17", "", None),
            ("debug with a write-only bool must not compile", "C17", "w", "bool"),
            ("debug with an array field must not compile (no Debug-printable getter without an index)", "C19", "rw", "array_noprobe"),
            ("debug with a write-only array field must not compile", "C17", "w", "array")]):
        mod = "g%d" % i
        if arr == "bool":
            f = field("key", [(4, 4)], T_bool(), access=acc)
        elif arr in ("array", "array_noprobe"):
            f = field("key", [(4, 5)], T_uint(2), access=acc, array={"k": 2, "stride": None})
        else:
            f = field("key", [(4, 7)], T_uint(4), access=acc)
        fs = [field("plain", [(0, 3)], T_uint(4)), f]
        s = struct(mod, "W", 16, fs, family="NEG", debug=True, default={"form": "=", "value": 0})
        from corpus import imports_of
        probe = ["/// if this compiles as well, the field has a getter", "pub fn probe(w: W) {", "    let _ = w.key(%s);" % ("0" if arr == "array" else ""), "}"]
        if arr == "array_noprobe":
            probe = []
        negt.add(raw_item(mod, "W", render_struct(s) + probe, prop, clause, extra={"imports": sorted(imports_of(s))}))
        s2 = struct(mod, "W", 16, fs, family="TWIN", debug=False, default={"form": "=", "value": 0})
        twin.add(s2)
    crates.append(negt)
    # ---- rejections that only the const evaluator makes (a still later phase: separate crate again): a default that
    # does not fit the declared base would be state above bit N-1 from the very first value on (C11, C06)
    negk = Crate("neg_const_0", kind="neg")
    for i, (base, form, val) in enumerate([(24, "=", 1 << 24), (24, "const=", 0x8100_0123), (24, "const:", (1 << 32) - 1), (7, "=", 0x80), (7, "const=", 0xFF),
                                           (12, "const=", 0x1000), (12, ":", 0xFFFF), (48, "const=", 1 << 48), (48, "=", (1 << 64) - 1), (65, "const=", 1 << 65),
                                           (100, "const:", 1 << 127), (127, "=", 1 << 127), (127, "const=", (1 << 128) - 1), (1, "const=", 2), (33, "const=", 1 << 33)]):
        mod = "k%d" % i
        fs = [field("lo", [(0, 0)], T_bool()), field("top", [(base - 1, base - 1)], T_bool(), access="r")]
        sk = struct(mod, "W", base, fs, family="NEG", default={"form": form, "value": val})
        from corpus import imports_of
        negk.add(raw_item(mod, "W", render_struct(sk), "C11", "default %s 0x%x does not fit u%d (%s)" % ("constant" if form.startswith("const") else "literal", val, base, form),
                          extra={"imports": sorted(imports_of(sk))}))
        s2 = struct(mod, "W", base, fs, family="TWIN", default={"form": form, "value": val & ((1 << base) - 1) | 1})
        twin.add(s2)
    crates.append(negk)
    # ---- enums (C10)
    nege = Crate("neg_enum_0", kind="neg")
    for i, (clause, lines, good) in enumerate(enum_cases(tier)):
        mod = "e%d" % i
        nege.add(raw_item(mod, "E", lines, "C10", clause))
        if good is not None:
            good = dict(good)
            good["mod"] = mod
            good["path"] = "%s::%s" % (mod, good["name"])
            good["family"] = "TWIN"
            twin.add(good)
    crates.append(nege)
    # ---- API absence (C14, C17) with compiling twins
    nega = Crate("neg_api_0", kind="neg")
    posa = Crate("pos_apitwin_0", kind="pos")
    pre = [l[4:] if l.startswith("    ") else l for l in API_PRELUDE.strip("\n").split("\n")]
    pimp = ["u2", "u3", "u4", "u5", "u6", "u12"]
    # one raw item per prelude declaration, so that a declaration that stops compiling is quarantined alone
    import re
    chunks = []
    cur = []
    for l in pre:
        if l.startswith("/// ") and cur and cur[-1] == "}":
            chunks.append(cur)
            cur = []
        if l.strip() or cur:
            cur.append(l)
    if cur:
        chunks.append(cur)
    for n, ch in enumerate(chunks):
        names = re.findall(r"pub (?:struct|enum) (\w+)", "\n".join(ch))
        for cr in (nega, posa):
            cr.add({"kind": "raw", "mod": "api", "name": names[0] if names else "_prelude%d" % n, "path": "api::_prelude%d" % n, "lines": list(ch),
                    "imports": pimp if n == 0 else [], "defines": names})
    for i, (prop, clause, bad, good) in enumerate(api_cases()):
        nega.add(raw_item("api", "n%d" % i, ["/// must not compile: %s" % clause, "pub fn n%d() {" % i, "    " + bad, "}"], prop, clause, expect_code="E0599"))
        posa.add({"kind": "raw", "mod": "api", "name": "p%d" % i, "path": "api::p%d" % i, "prop": prop, "clause": clause,
                  "lines": ["/// twin of n%d: %s" % (i, clause), "pub fn p%d() {" % i, "    " + good, "}"]})
    crates += [nega, posa]
    # ---- regime fixtures (C18 vacuity guards): these MUST be rejected by the regime itself
    negr = Crate("neg_regime_0", kind="neg")
    negr.header = ["#![no_std]", "#![deny(missing_docs)]", "//! regime fixtures", ""]
    negr.add(raw_item("r1", "undocumented", ["pub struct Undocumented;"], "C18", "fixture: an undocumented pub item is an error under deny(missing_docs)"))
    crates.append(negr)
    negr2 = Crate("neg_regime_1", kind="neg")
    negr2.header = ["#![no_std]", "#![deny(missing_docs)]", "//! regime fixtures", ""]
    negr2.add(raw_item("r2", "uses_std", ["/// uses std", "pub fn f() -> ::std::string::String { ::std::string::String::new() }"], "C18", "fixture: a ::std path is an error under #![no_std]"))
    crates.append(negr2)
    return crates
