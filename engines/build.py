#!/usr/bin/env python3
"""Builds the facts for one (tree, tier, seed): generates the witness corpus, compiles it with
the real rustc through the bbdrv driver, and stores facts + rustc diagnostics in
/verif/.cache/<key>/.  Everything is rebuilt whenever /repo's sources (or the engines) change."""
import hashlib
import json
import os
import shutil
import subprocess
import sys
import time

HERE = os.path.dirname(os.path.abspath(__file__))
VERIF = os.path.dirname(HERE)
REPO = os.environ.get("VERIF_REPO", "/repo")
CACHE = os.environ.get("VERIF_CACHE", os.path.join(VERIF, ".cache"))
DRV_DIR = os.path.join(HERE, "bbdrv")
DRV_BIN = os.path.join(DRV_DIR, "target", "debug", "bbdrv")
GENSRC_DIR = os.path.join(HERE, "gensrc")
GENSRC_BIN = os.path.join(GENSRC_DIR, "target", "debug", "gensrc")

sys.path.insert(0, HERE)
import corpus  # noqa: E402
import negcorpus  # noqa: E402


def sh(cmd, **kw):
    return subprocess.run(cmd, shell=isinstance(cmd, str), **kw)


def file_digest(paths):
    hsh = hashlib.sha256()
    for p in sorted(paths):
        hsh.update(p.encode())
        with open(p, "rb") as f:
            hsh.update(f.read())
    return hsh.hexdigest()


def walk(root, exts):
    out = []
    for dp, dn, fn in os.walk(root):
        dn[:] = [d for d in dn if d not in ("target", ".git", "__pycache__")]
        for f in fn:
            if f.endswith(exts):
                out.append(os.path.join(dp, f))
    return out


def tree_key(tier, seed):
    files = walk(os.path.join(REPO, "bitbybit"), (".rs", ".toml"))
    files.append(os.path.join(REPO, "Cargo.lock"))
    files += walk(HERE, (".py", ".rs", ".toml"))
    return hashlib.sha256((file_digest(files) + tier + str(seed)).encode()).hexdigest()[:20]


def sysroot():
    return subprocess.check_output(["rustc", "+nightly", "--print", "sysroot"], text=True).strip()


def base_env():
    env = dict(os.environ)
    env["CARGO_NET_OFFLINE"] = "true"
    env.pop("RUSTC_WRAPPER", None)
    return env


def ensure_tools():
    env = base_env()
    for d, b in ((DRV_DIR, DRV_BIN), (GENSRC_DIR, GENSRC_BIN)):
        if not os.path.isdir(d):
            continue
        srcs = walk(d, (".rs", ".toml"))
        newest = max(os.path.getmtime(p) for p in srcs)
        if not os.path.exists(b) or os.path.getmtime(b) < newest:
            r = sh(["cargo", "build", "--offline"], cwd=d, env=env, stdout=subprocess.PIPE, stderr=subprocess.STDOUT, text=True)
            if r.returncode != 0:
                sys.stderr.write(r.stdout)
                raise SystemExit("INFRA: cannot build %s" % d)


def harvest_literals():
    """integer literals in the generator's source: pulled into the boundary sets of the corpus"""
    out = set()
    if os.path.exists(GENSRC_BIN):
        r = sh([GENSRC_BIN, os.path.join(REPO, "bitbybit", "src"), "--literals"], stdout=subprocess.PIPE, text=True)
        if r.returncode == 0:
            try:
                for v in json.loads(r.stdout).get("literals", []):
                    if 0 < v < 128:
                        out.add(v)
            except Exception:
                pass
    return sorted(out)


CARGO_TOML = """[package]
name = "%s"
version = "0.0.0"
edition = "2021"

[lib]
path = "src/lib.rs"

[dependencies]
bitbybit = { path = "%s/bitbybit" }
arbitrary-int = "1.3.0"
"""


def write_workspace(ws, crates):
    if os.path.isdir(ws):
        shutil.rmtree(ws)
    os.makedirs(ws, exist_ok=True)
    members = []
    model = {}
    for c in crates:
        src, decls = c.render()
        d = os.path.join(ws, c.name)
        os.makedirs(os.path.join(d, "src"), exist_ok=True)
        with open(os.path.join(d, "Cargo.toml"), "w") as f:
            f.write(CARGO_TOML % (c.name, REPO))
        with open(os.path.join(d, "src", "lib.rs"), "w") as f:
            f.write(src)
        members.append(c.name)
        model[c.name] = {"kind": c.kind, "decls": decls}
    with open(os.path.join(ws, "Cargo.toml"), "w") as f:
        f.write("[workspace]\nresolver = \"2\"\nmembers = [%s]\n\n[profile.dev]\ndebug = false\nincremental = false\n" % ", ".join('"%s"' % m for m in members))
    shutil.copy(os.path.join(REPO, "Cargo.lock"), os.path.join(ws, "Cargo.lock"))
    # the lockfile of /repo also lists its own workspace members; cargo prunes them itself
    return model


def write_hints(hdir, model):
    os.makedirs(hdir, exist_ok=True)
    for cname, m in model.items():
        lines = []
        for d in m["decls"]:
            if d["kind"] != "struct":
                continue
            for f in d["fields"]:
                if f["array"]:
                    nm = f["name"].replace("r#", "")
                    k = f["array"]["k"]
                    if "r" in f["access"]:
                        lines.append("%s::%s %d" % (d["path"], nm, k))
                    if "w" in f["access"]:
                        lines.append("%s::with_%s %d" % (d["path"], nm, k))
                        lines.append("%s::set_%s %d" % (d["path"], nm, k))
        with open(os.path.join(hdir, cname + ".hints"), "w") as f:
            f.write("\n".join(lines) + "\n")


def root_span(span):
    """follow the expansion chain to the outermost call site (a location in the corpus file)"""
    s = span
    guard = 0
    while s.get("expansion") and guard < 32:
        s = s["expansion"]["span"]
        guard += 1
    return s


def run_cargo(ws, out, target, extra_env=None, wrapper=True, label="main", sub="check"):
    env = base_env()
    env["LD_LIBRARY_PATH"] = os.path.join(sysroot(), "lib") + ":" + env.get("LD_LIBRARY_PATH", "")
    env.pop("RUSTC_WORKSPACE_WRAPPER", None)
    if wrapper:
        env["RUSTFLAGS"] = "-Zmir-opt-level=0 -Zalways-encode-mir -Awarnings"
        env["RUSTC_WORKSPACE_WRAPPER"] = DRV_BIN
    else:
        # must-fail programs are compiled the way a user would: plain `cargo build`, no extra flags
        env["RUSTFLAGS"] = ""
    env["BBDRV_OUT"] = os.path.join(out, "facts")
    env["BBDRV_HINTS"] = os.path.join(out, "hints")
    env["BBDRV_CRATES"] = "pos_"
    env["CARGO_TARGET_DIR"] = target
    if extra_env:
        env.update(extra_env)
    os.makedirs(os.path.join(out, "facts"), exist_ok=True)
    t0 = time.time()
    p = subprocess.run(
        ["cargo", "+nightly", sub, "--offline", "--workspace", "--keep-going", "--message-format=json", "-j", str(os.cpu_count() or 8)],
        cwd=ws, env=env, stdout=subprocess.PIPE, stderr=subprocess.PIPE, text=True)
    diags = {}
    built = set()
    for line in p.stdout.splitlines():
        try:
            m = json.loads(line)
        except Exception:
            continue
        if m.get("reason") == "compiler-artifact":
            built.add(m["target"]["name"])
        if m.get("reason") != "compiler-message":
            continue
        msg = m["message"]
        if msg.get("level") not in ("error", "error: internal compiler error"):
            continue
        crate = m["target"]["name"]
        prim = [s for s in msg.get("spans", []) if s.get("is_primary")] or msg.get("spans", [])
        lines = []
        for s in prim:
            r = root_span(s)
            lines.append({"file": r.get("file_name"), "line": r.get("line_start"), "line_end": r.get("line_end")})
        diags.setdefault(crate, []).append({
            "code": (msg.get("code") or {}).get("code"),
            "message": msg.get("message", "")[:400],
            "at": lines,
        })
    return {"label": label, "rc": p.returncode, "wall_s": round(time.time() - t0, 2), "diags": diags, "built": sorted(built),
            "stderr_tail": p.stderr[-3000:]}


REL_ENV0 = {"CARGO_PROFILE_DEV_BUILD_OVERRIDE_OVERFLOW_CHECKS": "false", "CARGO_PROFILE_DEV_BUILD_OVERRIDE_DEBUG_ASSERTIONS": "false"}


def compare_expansions(d_dev, d_rel, crates):
    """per positive crate: {"same": bool, "lines": n} or the first differing line"""
    res = {}
    for c in crates:
        a = os.path.join(d_dev, c + ".rs")
        b = os.path.join(d_rel, c + ".rs")
        if not (os.path.exists(a) and os.path.exists(b)):
            res[c] = {"same": None, "why": "expansion missing"}
            continue
        with open(a, errors="replace") as fa, open(b, errors="replace") as fb:
            la = fa.read().splitlines()
            lb = fb.read().splitlines()
        if not la or not lb:
            res[c] = {"same": None if la == lb else False, "why": "empty expansion", "lines": len(la)}
            continue
        if la == lb:
            res[c] = {"same": True, "lines": len(la)}
            continue
        n = next((i for i, (x, y) in enumerate(zip(la, lb)) if x != y), min(len(la), len(lb)))
        res[c] = {"same": False, "line": n + 1, "dev": (la[n] if n < len(la) else "<end>")[:200], "rel": (lb[n] if n < len(lb) else "<end>")[:200], "lines": len(la)}
    return res


def _run_sig(run):
    """order-free signature of what a function does in one partition; None when the analysis was not exact"""
    if run.get("und"):
        return None
    sig = []
    for o in run.get("outs", []):
        if str(o.get("imp", "0")) == "1" or o.get("und"):
            return None
        v = json.dumps(o.get("v"), sort_keys=True) if o["k"] == "ret" else ""
        cells = json.dumps(o.get("cells"), sort_keys=True) if o["k"] == "ret" else ""
        if "*T" in v or "*T" in cells:
            return None
        sig.append((o["k"], v, cells))
    return sorted(sig)


def profile_diff(dir_dev, dir_rel, crates):
    """compare, function by function and partition by partition, what the interpreter finds in the MIR built with
    debug assertions and overflow checks on (the facts every rule uses) and in the MIR built with both off"""
    res = {}
    for c in crates:
        a = os.path.join(dir_dev, c + ".facts.json")
        b = os.path.join(dir_rel, c + ".facts.json")
        if not (os.path.exists(a) and os.path.exists(b)):
            res[c] = {"compared": 0, "diffs": [], "why": "facts missing for one profile"}
            continue
        da = json.load(open(a))
        db = json.load(open(b))
        idx = {}
        for f in db["fns"]:
            idx[(f.get("adt"), f["name"], tuple(f.get("impl_consts") or []), f.get("trait"))] = f
        n = 0
        diffs = []
        for f in da["fns"]:
            g = idx.get((f.get("adt"), f["name"], tuple(f.get("impl_consts") or []), f.get("trait")))
            if g is None or not f.get("pub"):
                continue
            rel_runs = {json.dumps(r["part"], sort_keys=True): r for r in g.get("runs", [])}
            for ra in f.get("runs", []):
                rb = rel_runs.get(json.dumps(ra["part"], sort_keys=True))
                if rb is None:
                    continue
                sa, sb = _run_sig(ra), _run_sig(rb)
                if sa is None:
                    continue
                if sb is None:
                    # the other profile's analysis is not exact (e.g. a shift by an unbounded index that is no longer
                    # stopped by an assertion): still comparable by *kind* of outcome
                    ka = sorted({x[0] for x in sa})
                    kb = sorted({o["k"] for o in rb.get("outs", [])}) if not rb.get("und") else None
                    if kb is not None and ka != kb:
                        n += 1
                        diffs.append({"fn": f["path"], "adt": f.get("adt"), "name": f["name"], "part": ra["part"], "dev": ka, "rel": kb, "dev_v": "", "rel_v": "(analysis of this profile not exact)"})
                    continue
                n += 1
                if sa != sb:
                    diffs.append({"fn": f["path"], "adt": f.get("adt"), "name": f["name"], "part": ra["part"],
                                  "dev": [x[0] for x in sa], "rel": [x[0] for x in sb],
                                  "dev_v": (sa[0][1] if sa else "")[:160], "rel_v": (sb[0][1] if sb else "")[:160]})
        res[c] = {"compared": n, "diffs": diffs[:40], "ndiffs": len(diffs)}
    return res


def build(tier, seed, verbose=True):
    ensure_tools()
    key = tree_key(tier, seed)
    out = os.path.join(CACHE, key)
    done = os.path.join(out, "DONE")
    if os.path.exists(done):
        return out
    # drop stale keys of the same tier (disk is limited)
    if os.path.isdir(CACHE):
        for d in os.listdir(CACHE):
            p = os.path.join(CACHE, d)
            if d != key and os.path.isfile(os.path.join(p, "TIER")):
                try:
                    if open(os.path.join(p, "TIER")).read().strip() == "%s %s" % (tier, seed):
                        shutil.rmtree(p, ignore_errors=True)
                except Exception:
                    pass
    if os.path.isdir(out):
        shutil.rmtree(out)
    os.makedirs(out)
    with open(os.path.join(out, "TIER"), "w") as f:
        f.write("%s %s" % (tier, seed))
    t0 = time.time()
    harvested = harvest_literals()
    crates = corpus.build_positive(tier, seed, harvested)
    crates += negcorpus.build_negative(tier, seed)
    ws = os.path.join(out, "ws")
    pos = [c for c in crates if c.kind == "pos"]
    negs = [c for c in crates if c.kind != "pos"]
    model = write_workspace(ws, pos)
    neg_ws = os.path.join(out, "ws_neg")
    model.update(write_workspace(neg_ws, negs))
    write_hints(os.path.join(out, "hints"), model)
    target = os.path.join(out, "target")
    target_neg = os.path.join(out, "target_neg")
    import threading
    results = {}

    def job(label, *a, **kw):
        results[label] = run_cargo(*a, label=label, **kw)

    threads = [threading.Thread(target=job, args=("main", ws, out, target)),
               threading.Thread(target=job, args=("neg", neg_ws, os.path.join(out, "negout"), target_neg), kwargs={"wrapper": False, "sub": "build"})]
    if True:  # (both tiers: a regression in the overflow-proof validation shows only in this configuration)
        # the --release configuration of the proc macro: no overflow checks inside the macro
        target2 = os.path.join(out, "target_rel")
        threads.append(threading.Thread(target=job, args=("neg_macro_release", neg_ws, os.path.join(out, "rel"), target2),
                                        kwargs={"wrapper": False, "sub": "build",
                                                "extra_env": {"CARGO_PROFILE_DEV_BUILD_OVERRIDE_OVERFLOW_CHECKS": "false",
                                                              "CARGO_PROFILE_DEV_BUILD_OVERRIDE_DEBUG_ASSERTIONS": "false"}}))
    # the generator's output must not depend on the profile the generator itself is built with (a `--release` build
    # of a user crate builds the macro without debug assertions / overflow checks): expand the positive workspace
    # with the macro built both ways and compare the expansions text for text
    exp_dirs = {}
    for lab, xenv in (("expand_dev", None), ("expand_rel", REL_ENV0)):
        ed = os.path.join(out, lab)
        os.makedirs(ed, exist_ok=True)
        exp_dirs[lab] = ed
        e2 = {"RUSTC_WORKSPACE_WRAPPER": os.path.join(HERE, "expand_wrapper.sh"), "VERIF_EXPAND_OUT": ed, "RUSTFLAGS": "-Awarnings"}
        if xenv:
            e2.update(xenv)
        threads.append(threading.Thread(target=job, args=(lab, ws, os.path.join(out, lab + "_facts"), os.path.join(out, "target_" + lab)),
                                        kwargs={"wrapper": False, "sub": "check", "extra_env": e2}))
    # the same witnesses compiled the way a `--release` build compiles the *user's* crate: no debug assertions, no
    # overflow checks; the interpreter's findings must not change (C16)
    rel_out = os.path.join(out, "relrun")
    threads.append(threading.Thread(target=job, args=("main_rel", ws, rel_out, os.path.join(out, "target_mainrel")),
                                    kwargs={"extra_env": {"RUSTFLAGS": "-Zmir-opt-level=0 -Zalways-encode-mir -Awarnings -Cdebug-assertions=off -Coverflow-checks=off",
                                                          "BBDRV_HINTS": os.path.join(out, "hints")}}))
    for t in threads:
        t.start()
    for t in threads:
        t.join()
    prof_diff = profile_diff(os.path.join(out, "facts"), os.path.join(rel_out, "facts"), [c.name for c in pos])
    shutil.rmtree(rel_out, ignore_errors=True)
    shutil.rmtree(os.path.join(out, "target_mainrel"), ignore_errors=True)
    results.pop("main_rel", None)
    expand_diff = compare_expansions(exp_dirs["expand_dev"], exp_dirs["expand_rel"], [c.name for c in pos])
    for lab in exp_dirs:
        shutil.rmtree(exp_dirs[lab], ignore_errors=True)
        shutil.rmtree(os.path.join(out, "target_" + lab), ignore_errors=True)
        shutil.rmtree(os.path.join(out, lab + "_facts"), ignore_errors=True)
        results.pop(lab, None)
    # localise build failures of positive crates: quarantine the items that own the errors and rebuild
    # only the affected crates, so every other obligation still gets a verdict (DESIGN.md section 2)
    by_name = {c.name: c for c in pos}
    for rnd in range(1, 4):
        failed = [c for c in results["main"]["diags"] if c in by_name]
        if not failed:
            break
        redo = []
        for cname in failed:
            c = by_name[cname]
            decls = model[cname]["decls"]
            progress = False
            stray = 0
            for x in results["main"]["diags"][cname]:
                owner = None
                for a in x["at"]:
                    ln = a.get("line")
                    if not ln:
                        continue
                    for d in decls:
                        if d.get("skip"):
                            continue
                        if d["line0"] <= ln <= d["line1"]:
                            owner = d
                            break
                        for k in d.get("consts", []):
                            if not k.get("skip") and k.get("line") in (ln, ln + 1):
                                owner = k
                                break
                        if owner:
                            break
                    if owner:
                        break
                if owner is None:
                    stray += 1
                    continue
                owner.setdefault("quarantined", []).append({"code": x.get("code"), "message": x.get("message", "")[:300], "round": rnd})
                progress = True
            for d in decls:
                if d.get("quarantined"):
                    d["skip"] = True
                for k in d.get("consts", []):
                    if k.get("quarantined"):
                        k["skip"] = True
            if progress:
                redo.append(c)
        if not redo:
            break
        ws_r = os.path.join(out, "ws_retry%d" % rnd)
        m2 = write_workspace(ws_r, redo)
        model.update(m2)
        write_hints(os.path.join(out, "hints"), model)
        for c in redo:
            fp = os.path.join(out, "facts", c.name + ".facts.json")
            if os.path.exists(fp):
                os.remove(fp)
        tr = os.path.join(out, "target_retry%d" % rnd)
        rr = run_cargo(ws_r, out, tr, label="retry%d" % rnd)
        shutil.rmtree(tr, ignore_errors=True)
        # the retry's diagnostics replace those of the rebuilt crates
        for c in redo:
            results["main"]["diags"].pop(c.name, None)
        for cname, ds in rr["diags"].items():
            results["main"]["diags"][cname] = ds
        results["retry%d" % rnd] = {"label": "retry%d" % rnd, "rc": rr["rc"], "wall_s": rr["wall_s"], "diags": {}, "built": rr["built"], "stderr_tail": rr["stderr_tail"]}
    # quarantined declarations: do they compile under a permissive regime (std, no deny(missing_docs))?  If so the
    # failure is one of the no_std / documentation regime (C18), otherwise the declaration is rejected as such (C09/C10)
    withq = [c for c in pos if any(d.get("quarantined") for d in model[c.name]["decls"])]
    if withq:
        import copy
        perm = []
        for c in withq:
            c2 = copy.deepcopy(c)
            c2.name = "std_" + c.name[4:]
            c2.header = ["#![allow(warnings)]", "//! permissive regime: std available, no lint denied", ""]
            for m_ in c2.mods.values():
                for d in m_:
                    d.pop("skip", None)
                    d["consts"] = []
            perm.append((c, c2))
        ws_p = os.path.join(out, "ws_permissive")
        mp = write_workspace(ws_p, [c2 for (_, c2) in perm])
        tp = os.path.join(out, "target_permissive")
        rp = run_cargo(ws_p, os.path.join(out, "permissive"), tp, wrapper=False, label="permissive")
        shutil.rmtree(tp, ignore_errors=True)
        results["permissive"] = rp
        for (c, c2) in perm:
            ds = rp["diags"].get(c2.name, [])
            for d, d2 in zip(model[c.name]["decls"], mp[c2.name]["decls"]):
                if d.get("quarantined") and d2.get("line0", -1) > 0:
                    hit = any(a.get("line") and d2["line0"] <= a["line"] <= d2["line1"] for x in ds for a in x["at"])
                    d["std_ok"] = not hit
    # a name-resolution error anywhere in a crate makes rustc stop before type checking, which hides the
    # type-level rejection of every other witness in that crate: witnesses that showed no error there are
    # compiled again on their own, so that "no error" really means "accepted"
    RES = ("E0433", "E0412", "E0425", "E0432", "E0405")
    REL_ENV = {"CARGO_PROFILE_DEV_BUILD_OVERRIDE_OVERFLOW_CHECKS": "false", "CARGO_PROFILE_DEV_BUILD_OVERRIDE_DEBUG_ASSERTIONS": "false"}
    negs0 = list(negs)
    for (label, suffix, xenv) in (("neg", "", None), ("neg_macro_release", "r", REL_ENV)):
        if label not in results:
            continue
        todo = list(negs0)
        for rnd in (1, 2):
            redo = []
            for c in todo:
                ds = results[label]["diags"].get(c.name, [])
                if not any(x.get("code") in RES for x in ds):
                    continue
                quiet = []
                for d in model[c.name]["decls"]:
                    if d.get("kind") != "neg" or label in d.get("rechecked", []):
                        continue
                    hit = any(a.get("line") and d["line0"] <= a["line"] <= d["line1"] for x in ds for a in x["at"])
                    if not hit:
                        quiet.append(d)
                if not quiet or len(quiet) == len([d for d in model[c.name]["decls"] if d.get("kind") == "neg"]):
                    continue
                c2 = corpus.Crate("%s_re%d%s" % (c.name, rnd, suffix), kind="neg")
                c2.header = c.header
                for d in model[c.name]["decls"]:
                    if d.get("kind") == "raw":
                        c2.add(json.loads(json.dumps(d)))
                for d in quiet:
                    d.setdefault("rechecked", []).append(label)
                    d2 = json.loads(json.dumps(d))
                    d2.pop("rechecked", None)
                    c2.add(d2)
                redo.append(c2)
            if not redo:
                break
            ws_n = os.path.join(out, "ws_neg_re%d%s" % (rnd, suffix))
            mn = write_workspace(ws_n, redo)
            for cn in mn:
                mn[cn]["only_label"] = label
            model.update(mn)
            tn = os.path.join(out, "target_neg_re%d%s" % (rnd, suffix))
            rn = run_cargo(ws_n, os.path.join(out, "negout" if not suffix else "rel"), tn, wrapper=False, sub="build", label="%s_re%d" % (label, rnd), extra_env=xenv)
            shutil.rmtree(tn, ignore_errors=True)
            for cname, ds in rn["diags"].items():
                results[label]["diags"][cname] = ds
            negs.extend(redo)
            crates.extend(redo)
            todo = redo
    # must-fail declarations that were *accepted*: compile them with the driver too, so that the properties about
    # accepted declarations (C11 invariant, C16 totality) also get a verdict on them
    accepted = []
    negdiags = results["neg"]["diags"]
    for c in negs:
        if model[c.name].get("only_label") not in (None, "neg"):
            continue
        ds = negdiags.get(c.name, [])
        for d in model[c.name]["decls"]:
            if d.get("kind") != "neg" or d.get("prop") != "C09" or not d.get("model") or "neg" in d.get("rechecked", []):
                continue
            hit = any(a.get("line") and d["line0"] <= a["line"] <= d["line1"] for x in ds for a in x["at"])
            if not hit:
                m = json.loads(json.dumps(d["model"]))
                m["family"] = "ACCEPTED"
                m["clause"] = d["clause"]
                m["mod"] = "acc_" + d["mod"]
                m["path"] = "%s::%s" % (m["mod"], m["name"])
                m["consts"] = []
                accepted.append(m)
    if accepted:
        ca = corpus.Crate("pos_accepted_0")
        for m in accepted[:400]:
            ca.add(m)
        ws_a = os.path.join(out, "ws_accepted")
        ma = write_workspace(ws_a, [ca])
        model.update(ma)
        write_hints(os.path.join(out, "hints"), model)
        ta = os.path.join(out, "target_accepted")
        ra = run_cargo(ws_a, out, ta, label="accepted")
        shutil.rmtree(ta, ignore_errors=True)
        results["accepted"] = ra
        crates.append(ca)
    runs = [results[k] for k in sorted(results)]
    for d in (target, target_neg, os.path.join(out, "target_rel")):
        shutil.rmtree(d, ignore_errors=True)
    with open(os.path.join(out, "model.json"), "w") as f:
        json.dump(model, f)
    with open(os.path.join(out, "runs.json"), "w") as f:
        json.dump(runs, f)
    meta = {"key": key, "tier": tier, "seed": seed, "harvested": harvested, "build_wall_s": round(time.time() - t0, 2), "expand_diff": expand_diff, "profile_diff": prof_diff,
            "crates": [c.name for c in crates]}
    with open(os.path.join(out, "meta.json"), "w") as f:
        json.dump(meta, f)
    with open(done, "w") as f:
        f.write("ok\n")
    if verbose:
        sys.stderr.write("[build] key=%s tier=%s wall=%.1fs crates=%d\n" % (key, tier, time.time() - t0, len(crates)))
    return out


if __name__ == "__main__":
    tier = sys.argv[1] if len(sys.argv) > 1 else "quick"
    seed = int(os.environ.get("VERIF_SEED", "0"))
    print(build(tier, seed))
