#!/bin/sh
# RUSTC_WORKSPACE_WRAPPER: instead of compiling a workspace crate, writes its macro-expanded source to
# $VERIF_EXPAND_OUT/<crate>.rs (the witness crates are leaves: nothing needs their metadata)
rustc="$1"; shift
name=""
prev=""
for a in "$@"; do
  if [ "$prev" = "--crate-name" ]; then name="$a"; fi
  prev="$a"
done
case "$name" in
  pos_*) "$rustc" "$@" -Zunpretty=expanded > "$VERIF_EXPAND_OUT/$name.rs" 2>"$VERIF_EXPAND_OUT/$name.err"; exit 0 ;;
  *) exec "$rustc" "$@" ;;
esac
