#!/usr/bin/env python3
"""Per-property metadata: level, rule text, floors (numbers counted on the unchanged tree)."""

TRUST = [
    "rustc nightly 1.97 front end: macro expansion, type check, MIR construction, const evaluator",
    "bbdrv abstract interpreter (/verif/engines/bbdrv, transfer functions exact on shift/mask/cast code)",
    "judge oracle computed from the corpus model (/verif/engines/corpus.py, judge.py)",
    "arbitrary_int::UInt<T,N> type invariant value < 2^N (its safe constructors enforce it)",
]

TV = "translation_validation"
EX = "exploration"


def P(level, rule, explanation, assumptions, floor_q=1, floor_t=1, anchor="", exhaustive=None):
    return {"level": level, "rule": rule, "explanation": explanation, "assumptions": assumptions, "trusted": TRUST,
            "floor": {"quick": floor_q, "thorough": floor_t}, "anchor": anchor, "exhaustive": exhaustive or {}}


A_DECL = "declarations outside the enumerated corpus families are covered by boundary density and literal harvesting, not by a parametric proof"

PROPS = {
    "C01": P(TV, "one obligation = (declaration, getter, index partition): the getter's symbolic result bit map must equal the model's positions, for all raw values at once; distinct = distinct (base, ranges, type) shapes",
             "Each corpus declaration is expanded by the macro from /repo's working tree; the driver interprets the getter's MIR over symbolic bits; the judge compares with positions computed from the model.",
             [A_DECL], anchor="bitbybit/src/bitfield/codegen.rs: extracted_bits / getter_packed"),
    "C02": P(TV, "one obligation = (declaration, with_/set_, partition): result bit map = argument bits at the field's positions, receiver bits elsewhere; plus set_ == with_ agreement",
             "Symbolic bit maps of with_ and set_ compared with the model for all raw values and all field values at once.",
             [A_DECL], anchor="bitbybit/src/bitfield/codegen.rs: setter_new_raw_value"),
    "C03": P(TV, "per array field: every in-range index partition (getter, with_, set_) against the model positions lo+i*stride; the class index>=K must have no returning path and end in a profile-independent panic with the receiver untouched",
             "Index is partitioned into {0..K-1} (concrete) and [K, usize::MAX] (interval).", [A_DECL], anchor="bitbybit/src/bitfield/codegen.rs: array accessors / assert!(index < K)"),
    "C04": P(TV, "per non-contiguous field (plain and array): gather map of the getter and scatter map of the writers equal the model's ordered concatenation",
             "Ordered range lists are enumerated (all ordered pairs on 8 bits; triples and 16-bit pairs in thorough) plus curated and seeded shapes.", [A_DECL],
             anchor="bitbybit/src/bitfield/codegen.rs: getter_packed / setter_new_bits / setter_mask"),
    "C05": P(TV, "per signed field: getter returns the N field bits as iN; writers place exactly the N argument bits and leave every other bit = receiver (a missing unsigned cast shows as argument bit N-1 replicated upward)",
             "Two's-complement meaning of the N bits is Rust's iN representation.", [A_DECL], anchor="bitbybit/src/bitfield/codegen.rs: unsigned_field_type cast"),
    "C06": P(TV, "per base (5 native + 122 arbitrary) and default form: new_with_raw_value/raw_value maps, const-evaluated ZERO/DEFAULT, Default::default()/new() outcome, layout size/alignment, Copy",
             "Constants are evaluated by rustc's const evaluator and read by the driver; layout and Copy come from compiler queries.", [A_DECL], anchor="bitbybit/src/bitfield/mod.rs: raw_value_wrap/unwrap, DEFAULT"),
    "C07": P(TV, "per enum: raw_value per variant = model discriminant; new_with_raw_value: every switch target maps to the variant with that discriminant, the fall-through returns Err(argument) or is unreachable because the targets cover all 2^N values",
             "The match is partitioned per listed raw value plus the fall-through class; coverage of the fall-through is counted by the driver.", [A_DECL], anchor="bitbybit/src/bitenum.rs: bitenum()"),
    "C08": P(TV, "per custom-typed field: getter returns T::new_with_raw_value(field bits in T's raw type) unmodified; writers store the payload of T::raw_value(argument) at the field's positions",
             "Conversions of the custom type are opaque symbols, so the field property is decided compositionally.", [A_DECL], anchor="bitbybit/src/bitfield/codegen.rs: CustomType::Yes"),
    "C09": P(EX, "accept side: every rule-valid corpus declaration compiles; reject side: each just-invalid twin owns >=1 rustc error at its own lines; distinct = distinct declarations",
             "rustc (with the macro from /repo's working tree) is the decider; diagnostics are attributed through expansion chains.", [A_DECL], anchor="bitbybit/src/bitfield/parsing.rs: parse_field"),
    "C10": P(EX, "accept side: every valid enum compiles and exhaustive ones have a counted total conversion; reject side: each invalid enum owns >=1 rustc error at its lines",
             "Same mechanism as C09 over bitenum declarations.", [A_DECL], anchor="bitbybit/src/bitenum.rs: check_explicit_exhaustive / check_explicit_conditional"),
    "C11": P(TV, "for every function producing a bitfield over an arbitrary-int base: each storage bit >= N is constant 0 or the receiver's same bit; raw_value()/new_with_raw_value maps; only the type's own impl writes the raw field",
             "Inductive invariant over all operation histories; its step cases are decided symbolically per function.", [A_DECL], anchor="bitbybit/src/bitfield/mod.rs, parsing.rs bounds checks"),
    "C12": P(TV, "frame premises P1-P4: every writer map is 'argument at a fixed footprint, receiver elsewhere', set_ == with_, getters depend on the receiver only, with_ does not modify it, single raw field",
             "The unbounded history quantifier follows by induction from these per-function facts (DESIGN.md C12).", [A_DECL], anchor="bitbybit/src/bitfield/codegen.rs: setters"),
    "C13": P(TV, "builder() = model default (or 0); each Partial step = with_<field> applied to the wrapped value (arrays: element i from position i); build() returns it unchanged",
             "Builder steps are interpreted through the inlined with_ functions.", [A_DECL], anchor="bitbybit/src/bitfield/codegen.rs: make_builder"),
    "C14": P(EX, "builder() exists iff the model says so; type-state graph from impl headers: declaration-order chain reaches build(), and no path reaches a method returning the struct before every with_<field>; plus E0599 witnesses",
             "Reachability over the finite graph of impl<const MASK> headers decides all prefixes/subsequences at once.", [A_DECL], anchor="bitbybit/src/bitfield/codegen.rs: make_builder / ranges_have_self_overlap"),
    "C15": P(TV, "is_const_fn for every inherent fn not taking &mut self; const items calling each operation class compile and their const-evaluated values equal the model",
             "Const-vs-runtime equality is Rust's const-fn guarantee given bodies free of const_eval_select (checked).", [A_DECL, "const evaluation agrees with run time for deterministic integer code (language guarantee)"],
             anchor="bitbybit/src/bitfield/codegen.rs templates: `pub const fn`"),
    "C16": P(TV, "under overflow-checks+debug-assertions every Assert/diverging call in every generated function is decided unreachable for all inputs of every in-range partition; the only panic is the index panic",
             "With no overflow assert able to fire, checked and wrapping arithmetic coincide, so results are profile independent.", [A_DECL, "optimisation-level independence is compiler correctness"],
             anchor="bitbybit/src/bitfield/codegen.rs: mask expressions / full-width special cases"),
    "C17": P(EX, "presence/absence of getter/with_/set_ by declared access, and semantically: writers change only writable footprints, readers depend only on readable bits; plus E0599 witnesses",
             "API surface from inherent impl items; semantic footprints from the symbolic maps.", [A_DECL], anchor="bitbybit/src/bitfield/parsing.rs: ArgumentParser Read/Write"),
    "C18": P("other", "every positive witness compiles under #![no_std]+#![deny(missing_docs)]; HIR unsafe sites in expansions; crates referenced by generated bodies; generator token scan for `unsafe`/std/alloc",
             "Per-witness facts from rustc plus a token scan of the generator's quote! templates (which bounds every program).", [A_DECL, "the thumb target of test-no-std is not installed; host no_std is used"],
             anchor="bitbybit/src/**: quote! templates"),
    "C19": P(TV, "Debug::fmt call sequence: debug_struct(name), then per declared field getter + field(label, &getter result) in order, then finish; nothing else",
             "Rendering by core::fmt::DebugStruct is trusted.", [A_DECL], anchor="bitbybit/src/bitfield/mod.rs: debug_trait"),
}


# floors = 90 % of the obligation counts measured on the unchanged tree (quick: min over seeds 0 and 1; thorough: seed 0)
_COUNTED = {
    "quick": {"C01": 10820, "C02": 94817, "C03": 86383, "C04": 6260, "C05": 4528, "C06": 24460, "C07": 15486, "C08": 2319, "C09": 5368, "C10": 3504, "C11": 32623, "C12": 123608, "C13": 6011, "C14": 5585, "C15": 47155, "C16": 116572, "C17": 130621, "C18": 3939, "C19": 81},
    "thorough": {"C01": 75412, "C02": 499202, "C03": 323391, "C04": 48580, "C05": 27025, "C06": 55736, "C07": 29011, "C08": 10021, "C09": 11224, "C10": 8724, "C11": 250540, "C12": 650541, "C13": 15351, "C14": 15211, "C15": 235301, "C16": 538319, "C17": 759598, "C18": 9356, "C19": 157},
}
for _pid, _m in PROPS.items():
    _m["floor"] = {"quick": _COUNTED["quick"][_pid] * 9 // 10, "thorough": _COUNTED["thorough"][_pid] * 9 // 10}
