#!/usr/bin/env python3
"""Judge: compares the driver's facts with the oracle computed from the corpus model and
decides the properties C01..C19 (DESIGN.md section 5).  Nothing here runs generated code."""
import json
import os
import re
import sys
import time

HERE = os.path.dirname(os.path.abspath(__file__))
VERIF = os.path.dirname(HERE)
sys.path.insert(0, HERE)
import build as buildmod  # noqa: E402
from corpus import (  # noqa: E402
    builder_expected, enum_present, fcount, ffootprint, fpositions, fstride, fwidth, is_native, self_overlapping, storage_of,
)

# ------------------------------------------------------------------ bit maps

Z = ("c", 0)
O = ("c", 1)
T = ("T",)


def S(name, k, neg=False):
    return ("s", name, k, neg)


_UNRESOLVED = re.compile(r"found T, expected|can become T\b")
_CANON = re.compile(r"(\.0)+$")


def canon_sym(name):
    """`p0.0.0` (self -> Partial -> struct -> raw) and `p0.0` name the same thing: how many single-field wrappers
    surround the raw integer is a representation detail, so a trailing chain of `.0` is collapsed to one"""
    return _CANON.sub(".0", name)


def parse_map(m):
    out = []
    if not m:
        return out
    for part in m.split(","):
        n, src = part.split("*", 1)
        n = int(n)
        if src == "0":
            out += [Z] * n
        elif src == "1":
            out += [O] * n
        elif src == "T":
            out += [T] * n
        elif src.startswith("F["):
            # an exact boolean function of 2-3 input bits: never equal to a plain source bit
            out += [("f", src)] * n
        else:
            neg = src.startswith("~")
            if neg:
                src = src[1:]
            name, k = src.rsplit("@", 1)
            k = int(k)
            name = canon_sym(name)
            out += [S(name, k + i, neg) for i in range(n)]
    return out


def const_bits(v, w):
    return [O if (v >> i) & 1 else Z for i in range(w)]


def bits_const(bits):
    v = 0
    for i, b in enumerate(bits):
        if b == O:
            v |= 1 << i
        elif b != Z:
            return None
    return v


def show_bit(b):
    if b == Z:
        return "0"
    if b == O:
        return "1"
    if b == T:
        return "T"
    if b[0] == "f":
        tt, *vs = b[1][2:-1].split(";")
        return "fn(tt=0x%s of %s)" % (tt, ", ".join(vs))
    return "%s%s[%d]" % ("~" if b[3] else "", b[1], b[2])


def diff_bits(found, exp):
    if len(found) != len(exp):
        return "width %d != expected %d" % (len(found), len(exp))
    for i, (a, b) in enumerate(zip(found, exp)):
        if a != b:
            return "bit %d: found %s, expected %s" % (i, show_bit(a), show_bit(b))
    return None


def has_top(bits):
    return any(b == T for b in bits)


def int_of(v):
    """bits of a rendered Int value, or None"""
    if isinstance(v, dict) and "m" in v and "w" in v:
        return parse_map(v["m"])
    return None


def struct1(v):
    """the single field of a one-field struct rendering"""
    if isinstance(v, dict) and "s" in v and len(v["s"]) == 1:
        return v["s"][0]
    return None


# ------------------------------------------------------------------ facts access


class Facts:
    def __init__(self, out_dir):
        self.dir = out_dir
        self.model = json.load(open(os.path.join(out_dir, "model.json")))
        self.runs = json.load(open(os.path.join(out_dir, "runs.json")))
        self.meta = json.load(open(os.path.join(out_dir, "meta.json")))
        self._crates = {}

    def crate(self, name):
        if name not in self._crates:
            p = os.path.join(self.dir, "facts", name + ".facts.json")
            if not os.path.exists(p):
                self._crates[name] = None
            else:
                d = json.load(open(p))
                idx = {}
                for f in d["fns"]:
                    key = (f.get("adt"), f["name"], tuple(f.get("impl_consts") or []), f.get("trait"))
                    idx.setdefault(key, []).append(f)
                d["_fn"] = idx
                d["_adt"] = {a["path"]: a for a in d["adts"]}
                d["_const"] = {}
                for c in d["consts"]:
                    d["_const"].setdefault(c["path"], c)
                    if c.get("adt"):
                        d["_const"].setdefault((c["adt"], c["name"]), c)
                self._crates[name] = d
        return self._crates[name]

    def pos_crates(self, prefix=None):
        return [c for c in self.meta["crates"] if c.startswith("pos_") and (prefix is None or any(c.startswith("pos_" + p) for p in prefix))]

    def decls(self, crate):
        return self.model[crate]["decls"]

    def diags(self, crate, label="main"):
        for r in self.runs:
            if r["label"] == label:
                return r["diags"].get(crate, [])
        return []


def fn_of(cr, adt, name, consts=(), trait=None):
    lst = cr["_fn"].get((adt, name, tuple(consts), trait), [])
    return lst[0] if len(lst) == 1 else None


# ------------------------------------------------------------------ obligations


class Ob:
    __slots__ = ("props", "key", "ok", "detail", "sample")

    def __init__(self, props, key, ok, detail="", sample=None):
        self.props = props
        self.key = key
        self.ok = ok  # True / False / None (undecided)
        self.detail = detail
        self.sample = sample


class Ctx:
    def __init__(self, facts):
        self.facts = facts
        self.obs = []
        self.shapes = {}  # property -> set of distinct non-trivial declaration shapes
        self.programs = {}  # property -> set of declarations analysed

    def ob(self, props, key, ok, detail="", sample=None):
        # a mismatch at a bit the interpreter could not resolve is not a verdict
        if ok is False and _UNRESOLVED.search(detail or ""):
            ok = None
        self.obs.append(Ob(tuple(props), key, ok, detail, sample))

    def note_shape(self, props, decl, shape):
        for p in props:
            self.shapes.setdefault(p, set()).add(shape)
            self.programs.setdefault(p, set()).add(decl)


# ------------------------------------------------------------------ oracle helpers


def self_sym(depth=0):
    return "p0.0"


def expected_payload_from_self(f, i, sym):
    return [S(sym, p) for p in fpositions(f, i)]


def getter_value_bits(ty, payload):
    """bits of the value the getter must return (before custom conversion), per field type"""
    k = ty["k"]
    w = ty["w"]
    if k == "bool":
        return ("int", payload)
    if k in ("uint", "enum", "optenum", "nested"):
        if (k == "uint" and is_native(w)) or (k != "uint" and w != 1 and is_native(w)):
            return ("int", payload)
        return ("uintstruct", payload + [Z] * (storage_of(w) - w))
    if k == "int":
        return ("int", payload)
    raise ValueError(k)


def arg_payload(ty, argsym, w):
    """payload bits supplied by the value argument of a writer (symbolic forms)"""
    k = ty["k"]
    if k == "uint" and not is_native(w):
        return [S(argsym + ".0", j) for j in range(w)]
    return [S(argsym, j) for j in range(w)]


def single_ret(run):
    """the unique decided outcome of a run; (outcome, problem)"""
    if run.get("und"):
        return None, "undecided: %s" % run["und"]
    outs = run["outs"]
    if len(outs) != 1:
        kinds = ["%s%s" % (o["k"], "?" if o.get("und") else "") for o in outs]
        return None, "expected exactly one outcome, found %d (%s)" % (len(outs), ",".join(kinds[:6]))
    o = outs[0]
    if o["k"] != "ret":
        return None, "outcome is %s (%s)" % (o["k"], o.get("what"))
    if o["mf"]:
        return None, "undecided asserts on the path: %s" % o["mf"][:2]
    return o, None


def runs_by_part(fn):
    out = {}
    for r in fn.get("runs", []):
        key = tuple(sorted(r["part"].items()))
        out[key] = r
    return out


def self_cell_unchanged(o, storage, depth=0):
    c = o["cells"].get("p0")
    if c is None:
        return "no self cell"
    bits = raw_of_struct_val(c)
    if bits is None:
        return "self cell has unexpected shape"
    exp = [S(self_sym(depth), k) for k in range(storage)]
    return diff_bits(bits, exp)


# ------------------------------------------------------------------ rules: getters / writers


def field_props(f, base_props_kind):
    """which properties an accessor obligation of this field serves"""
    props = set()
    k = f["ty"]["k"]
    custom = k in ("enum", "optenum", "nested")
    nc = len(f["ranges"]) > 1
    if custom:
        props.add("C08")
        if base_props_kind == "C02":
            props.add("C02")
    else:
        if f["array"]:
            props.add("C03")
        if nc:
            props.add("C04")
        if base_props_kind == "C02" or (not f["array"] and not nc):
            props.add(base_props_kind)  # C01: contiguous scalar getters; C02: every writer
        if k == "int":
            props.add("C05")
    return props


def decl_shape(s, f):
    return (s["base"], tuple(map(tuple, f["ranges"])), f["ty"]["k"], f["ty"]["w"], f["access"],
            (f["array"]["k"], fstride(f)) if f["array"] else None)


def check_getter(ctx, cr, s, f):
    fname = f["name"].replace("r#", "")
    props = field_props(f, "C01") | {"C12"}
    if f["array"]:
        props.add("C03")
    key0 = "%s::%s" % (s["path"], fname)
    fn = fn_of(cr, s["path"], fname)
    if fn is None:
        ctx.ob({"C17"}, key0 + "|getter|present", False, "getter `%s` not found on %s" % (fname, s["path"]))
        return
    ctx.note_shape(props, s["path"], decl_shape(s, f))
    sym = self_sym()
    parts = runs_by_part(fn)
    K = fcount(f)
    idxs = list(range(K)) if f["array"] else [None]
    custom = f["ty"]["k"] in ("enum", "optenum", "nested")
    for i in idxs:
        pk = (("p1", str(i)),) if i is not None else ()
        run = parts.get(pk)
        okey = "%s|getter|%s" % (key0, "i=%s" % i if i is not None else "-")
        if run is None:
            ctx.ob(props, okey, None, "no analysis run for partition %s" % (pk,))
            continue
        o, prob = single_ret(run)
        if o is None:
            # a panic / extra outcome in an in-range partition is a totality violation, otherwise undecided
            bad = (not run.get("und")) and any(x["k"] != "ret" and not x.get("und") for x in run["outs"])
            ctx.ob(props, okey, False if bad else None, prob)
            continue
        payload = expected_payload_from_self(f, i or 0, sym)
        kind, exp = getter_value_bits(f["ty"], payload)
        detail = None
        if custom:
            # Return(call(T::new_with_raw_value, extracted)) unmodified
            calls = o["calls"]
            tname = f["ty"]["name"].split("::")[-1]
            if len(calls) != 1 or not calls[0]["callee"].endswith("%s::new_with_raw_value" % tname):
                detail = "expected exactly one call to %s::new_with_raw_value, found %s" % (tname, [c["callee"] for c in calls])
            else:
                arg = calls[0]["args"][0] if calls[0]["args"] else None
                v = struct1(arg) if kind == "uintstruct" else arg
                bits = int_of(v)
                if bits is None:
                    detail = "argument of new_with_raw_value has unexpected shape %s" % json.dumps(arg)[:120]
                else:
                    detail = diff_bits(bits, exp)
                    if detail:
                        detail = "argument of %s::new_with_raw_value: %s" % (tname, detail)
                if not detail and not arg_is_param(o["v"], "c0"):
                    detail = "getter does not return the conversion result unmodified: %s" % json.dumps(o["v"])[:120]
        else:
            v = struct1(o["v"]) if kind == "uintstruct" else o["v"]
            bits = int_of(v)
            if bits is None:
                detail = "return value has unexpected shape %s" % json.dumps(o["v"])[:120]
            else:
                detail = diff_bits(bits, exp)
            if not detail and o["calls"]:
                detail = "unexpected opaque calls %s" % [c["callee"] for c in o["calls"]]
        if not detail:
            detail = self_cell_unchanged(o, s["storage"])
            if detail:
                detail = "receiver modified: " + detail
        und = detail is not None and ("T" in detail.split("found")[-1].split(",")[0] if "found" in detail else False)
        ctx.ob(props, okey, True if detail is None else (None if und else False), detail or "",
               sample={"decl": s["path"], "fn": fname, "part": dict(pk), "ret": o["v"]} if detail is None else None)
    if f["array"]:
        check_oob(ctx, s, f, fn, parts, key0, "getter", props)


def check_oob(ctx, s, f, fn, parts, key0, what, props):
    K = fcount(f)
    p = {"C03"}
    cands = [(k, r) for k, r in parts.items() if dict(k).get("p1") == ">=%d" % K]
    if not cands:
        ctx.ob(p, "%s|%s|i>=%d" % (key0, what, K), None, "no analysis run for the out-of-range class")
        return
    for pk, run in cands:
        check_oob_run(ctx, s, f, run, pk, "%s|%s|%s" % (key0, what, ",".join("%s=%s" % kv for kv in pk)), what, key0, p, K)


def check_oob_run(ctx, s, f, run, pk, okey, what, key0, p, K):
    if run.get("und"):
        ctx.ob(p, okey, None, "undecided: %s" % run["und"])
        return
    rets = [o for o in run["outs"] if o["k"] == "ret"]
    decided = [o for o in run["outs"] if not o.get("und")]
    if rets:
        sure = [o for o in rets if not str(o.get("imp", "0")) == "1"]
        if not sure:
            ctx.ob(p, okey, None, "index >= %d may return normally from %s of %s, but only on a path the analysis could not resolve" % (K, what, key0))
            return
        how = ""
        preds = [c for c in sure[0].get("conds", []) if "pred" in c]
        if preds:
            how = " (e.g. for the indices with %s = %s)" % (json.dumps(preds[-1]["pred"])[:80], preds[-1]["is"])
        ctx.ob(p, okey, False, "index >= %d can return normally from %s of %s%s: no profile-independent bounds check stops it" % (K, what, key0, how))
        return
    if not decided:
        ctx.ob(p, okey, None, "no decided outcome for the out-of-range class")
        return
    for o in decided:
        good = o["k"] == "panic" and (o.get("why") == "call" or "BoundsCheck" in (o.get("what") or ""))
        if not good:
            # (also a C16 matter: what the call does then depends on the build profile)
            ctx.ob(set(p) | {"C16"}, okey, False, "out-of-range index ends in %s %s, which disappears without overflow checks" % (o["k"], o.get("what")))
            return
        d = self_cell_unchanged(o, s["storage"])
        if d:
            ctx.ob(p, okey, False, "receiver modified before the bounds panic: " + d)
            return
    ctx.ob(p, okey, True, sample={"decl": s["path"], "fn": what, "part": dict(pk), "outcome": decided[0].get("what")})


def expected_written(s, f, i, argbits, depth=0):
    pos = fpositions(f, i)
    sym = self_sym(depth)
    exp = [S(sym, k) for k in range(s["storage"])]
    for j, p in enumerate(pos):
        if p < len(exp):
            exp[p] = argbits[j]
    return exp


def writer_arg_bits(ctx, f, o, argidx, boolval):
    """(payload bits supplied to the field, problem)"""
    ty = f["ty"]
    w = fwidth(f)
    k = ty["k"]
    if k == "bool":
        return [O if boolval else Z], None
    if k in ("uint", "int"):
        return arg_payload(ty, "p%d" % argidx, w), None
    # custom: payload of call(T::raw_value, arg)
    calls = o["calls"]
    tname = ty["name"].split("::")[-1]
    if len(calls) != 1 or not calls[0]["callee"].endswith("%s::raw_value" % tname):
        return None, "expected exactly one call to %s::raw_value, found %s" % (tname, [c["callee"] for c in calls])
    arg = calls[0]["args"][0] if calls[0]["args"] else None
    if not arg_is_param(arg, "p%d" % argidx):
        return None, "raw_value() is not called on the unmodified argument: %s" % json.dumps(arg)[:160]
    if w != 1 and is_native(w):
        return [S("c0", j) for j in range(w)], None
    return [S("c0.0", j) for j in range(w)], None


def arg_is_param(v, name):
    """is the rendered value exactly the symbolic parameter `name` (any shape)?"""
    if not isinstance(v, dict):
        return False
    if "o" in v:
        return v["o"] == name
    if "ref" in v:
        return arg_is_param(v["ref"], name)
    if "m" in v:
        bits = parse_map(v["m"])
        leaf = None
        n = 0
        for i, b in enumerate(bits):
            if b[0] == "s" and not b[3] and b[2] == i and (leaf is None or b[1] == leaf):
                leaf = b[1]
                n += 1
            else:
                break
        if n == 0:
            return False
        if not (leaf == name or leaf.startswith(name + ".") or leaf.startswith(name + "[")):
            return False
        return all(b == Z for b in bits[n:])
    if "s" in v:
        return all(arg_is_param(x, name) for x in v["s"])
    if "a" in v:
        return all(arg_is_param(x, name) for x in v["a"])
    return False


def check_writers(ctx, cr, s, f):
    fname = f["name"].replace("r#", "")
    props = field_props(f, "C02") | {"C12"}
    ctx.note_shape(props, s["path"], decl_shape(s, f))
    K = fcount(f)
    idxs = list(range(K)) if f["array"] else [None]
    isbool = f["ty"]["k"] == "bool"
    argidx = 2 if f["array"] else 1
    maps = {}
    for which in ("with_", "set_"):
        key0 = "%s::%s%s" % (s["path"], which, fname)
        fn = fn_of(cr, s["path"], which + fname)
        if fn is None:
            ctx.ob({"C17"}, key0 + "|present", False, "`%s%s` not found on %s" % (which, fname, s["path"]))
            continue
        parts = runs_by_part(fn)
        for i in idxs:
            for bv in ([False, True] if isbool else [None]):
                pk = []
                if i is not None:
                    pk.append(("p1", str(i)))
                if bv is not None:
                    pk.append(("p%d" % argidx, "true" if bv else "false"))
                pk = tuple(sorted(pk))
                okey = "%s|%s" % (key0, ",".join("%s=%s" % kv for kv in pk) or "-")
                run = parts.get(pk)
                if run is None:
                    ctx.ob(props, okey, None, "no analysis run for partition %s" % (pk,))
                    continue
                o, prob = single_ret(run)
                if o is None:
                    bad = (not run.get("und")) and any(x["k"] != "ret" and not x.get("und") for x in run["outs"])
                    ctx.ob(props, okey, False if bad else None, prob)
                    continue
                argbits, prob = writer_arg_bits(ctx, f, o, argidx, bv)
                if argbits is None:
                    ctx.ob(props, okey, False, prob)
                    continue
                exp = expected_written(s, f, i or 0, argbits)
                if which == "with_":
                    v = struct1(o["v"])
                    bits = int_of(v)
                    detail = "return value has unexpected shape" if bits is None else diff_bits(bits, exp)
                    if not detail:
                        d2 = self_cell_unchanged(o, s["storage"])
                        if d2:
                            detail = "with_ modified its receiver: " + d2
                else:
                    c = o["cells"].get("p0")
                    v = struct1(c) if c else None
                    bits = int_of(v)
                    detail = "self cell has unexpected shape" if bits is None else diff_bits(bits, exp)
                    if not detail and o["v"] != {"u": 1}:
                        detail = "set_ returns a value"
                if bits is not None:
                    maps[(which, pk)] = bits
                if not detail and f["ty"]["k"] not in ("enum", "optenum", "nested") and o["calls"]:
                    detail = "unexpected opaque calls %s" % [c["callee"] for c in o["calls"]]
                und = bits is not None and detail is not None and has_top(bits)
                ctx.ob(props, okey, True if detail is None else (None if und else False), detail or "",
                       sample={"decl": s["path"], "fn": which + fname, "part": dict(pk), "raw_after": v} if detail is None else None)
        if f["array"]:
            check_oob(ctx, s, f, fn, parts, key0, which + fname, props)
    # sibling agreement set_ == with_
    for (which, pk), bits in maps.items():
        if which != "with_":
            continue
        other = maps.get(("set_", pk))
        if other is None:
            continue
        d = diff_bits(other, bits)
        ctx.ob({"C02", "C12"} | ({"C03"} if f["array"] else set()), "%s::set_%s|%s|agrees_with_with" % (s["path"], fname, pk),
               d is None, "set_ and with_ disagree: %s" % d if d else "")


def check_frame_only(ctx, cr, s, f):
    """a field whose range list names a bit twice is outside the C04 mapping guarantee, but its writers
    must still leave every bit outside the field's footprint equal to the receiver's (C02, C12)"""
    fname = f["name"].replace("r#", "")
    foot = ffootprint(f)
    sym = self_sym()
    for which in ("with_", "set_"):
        fn = fn_of(cr, s["path"], which + fname)
        if fn is None:
            continue
        for run in fn.get("runs", []):
            part = run["part"]
            if any(str(v).startswith(">=") for v in part.values()):
                continue
            okey = "%s::%s%s|frame|%s" % (s["path"], which, fname, ",".join("%s=%s" % kv for kv in sorted(part.items())) or "-")
            o, prob = single_ret(run)
            if o is None:
                ctx.ob({"C02", "C12"}, okey, None, prob)
                continue
            bits = raw_of_struct_val(o["v"]) if which == "with_" else raw_of_struct_val(o["cells"].get("p0"))
            if bits is None:
                ctx.ob({"C02", "C12"}, okey, None, "unexpected shape")
                continue
            bad = [k for k, b in enumerate(bits) if k not in foot and b != S(sym, k)]
            und = any(bits[k] == T for k in bad)
            ctx.ob({"C02", "C12"}, okey, None if (bad and und) else (not bad),
                   "`%s%s` changes bit(s) %s, which lie outside the field (bits %s)" % (which, fname, bad[:6], sorted(foot)[:12]) if bad else "")


# ------------------------------------------------------------------ basics: raw round trip, constants, layout (C06, C11)


def raw_of_struct_val(v, depth=0):
    """the raw integer inside a generated value, however many single-field wrappers surround it"""
    for _ in range(6):
        if v is None:
            return None
        b = int_of(v)
        if b is not None:
            return b
        v = struct1(v)
    return None


def check_basics(ctx, cr, s):
    N, St = s["base"], s["storage"]
    native = is_native(N)
    props = {"C06"} | (set() if native else {"C11"})
    path = s["path"]
    ctx.note_shape(props, path, ("basics", N, json.dumps(s["default"])))
    # new_with_raw_value (C01 is stated about reading "from new_with_raw_value(r)": a constructor that does not
    # store r unchanged breaks every getter's contract, so the obligation also counts for C01 when fields are readable)
    fn = fn_of(cr, path, "new_with_raw_value")
    okey = path + "::new_with_raw_value"
    cprops = props | ({"C01"} if any("r" in f["access"] for f in s["fields"]) else set())
    if fn is None:
        ctx.ob(cprops, okey, False, "new_with_raw_value missing")
    else:
        r = fn["runs"][0] if fn.get("runs") else None
        o, prob = single_ret(r) if r else (None, "no run")
        if o is None:
            ctx.ob(cprops, okey, False if (r and not r.get("und") and any(x["k"] != "ret" and not x.get("und") for x in r["outs"])) else None, prob)
        else:
            bits = raw_of_struct_val(o["v"])
            argsym = "p0" if native else "p0.0"
            exp = [S(argsym, j) for j in range(N)] + [Z] * (St - N)
            d = "unexpected shape" if bits is None else diff_bits(bits, exp)
            ctx.ob(cprops, okey, d is None, d or "", sample={"decl": path, "fn": "new_with_raw_value", "ret": o["v"]})
    # raw_value
    fn = fn_of(cr, path, "raw_value")
    okey = path + "::raw_value"
    if fn is None:
        ctx.ob(props, okey, False, "raw_value missing")
    else:
        r = fn["runs"][0] if fn.get("runs") else None
        o, prob = single_ret(r) if r else (None, "no run")
        if o is None:
            bad = r and not r.get("und") and any(x["k"] != "ret" and not x.get("und") for x in r["outs"])
            ctx.ob(props, okey, False if bad else None, prob)
        else:
            v = o["v"] if native else struct1(o["v"])
            bits = int_of(v)
            exp = [S("p0.0", j) for j in range(N)] + [Z] * (St - N)
            d = "unexpected shape" if bits is None else diff_bits(bits, exp)
            if not d:
                d = self_cell_unchanged(o, St)
            ctx.ob(props, okey, d is None, d or "", sample={"decl": path, "fn": "raw_value", "ret": o["v"]})
    # the basic API is public (whatever the visibility of the struct itself)
    adt = cr["_adt"].get(path)
    if adt is not None:
        vis = {}
        for im in adt["impls"]:
            for it in im["items"]:
                vis[it["name"]] = bool(it.get("pub")) or vis.get(it["name"], False)
        want = ["new_with_raw_value", "raw_value", "ZERO"] + (["DEFAULT"] if s["default"] is not None else [])
        hidden = [n for n in want if n in vis and not vis[n]]
        ctx.ob({"C06"}, path + "|basic_api_public", not hidden, "not `pub`: %s" % hidden if hidden else "")
    # constants
    zc = cr["_const"].get((path, "ZERO"))
    okey = path + "::ZERO"
    if zc is None:
        ctx.ob(props, okey, False, "ZERO missing")
    else:
        bits = raw_of_struct_val(zc["val"])
        d = "ZERO not evaluated" if bits is None else diff_bits(bits, const_bits(0, St))
        ctx.ob(props | {"C15"}, okey, d is None, d or "")
    dflt = s["default"]
    dc = cr["_const"].get((path, "DEFAULT"))
    if dflt is None:
        ctx.ob({"C06"}, path + "::DEFAULT|absent", dc is None, "DEFAULT exists although no default was declared" if dc else "")
    else:
        exp = const_bits(dflt["value"], St)
        okey = path + "::DEFAULT"
        if dc is None:
            ctx.ob(props, okey, False, "DEFAULT missing although a default was declared")
        else:
            bits = raw_of_struct_val(dc["val"])
            d = "DEFAULT not evaluated" if bits is None else diff_bits(bits, exp)
            ctx.ob(props | {"C15"}, okey, d is None, d or "", sample={"decl": path, "const": "DEFAULT", "val": dc["val"]})
        for nm, tr in (("new", None), ("default", "core::default::Default")):
            fn = fn_of(cr, path, nm, (), tr)
            okey = "%s::%s" % (path, nm)
            if fn is None:
                ctx.ob({"C06"}, okey, False, "%s() missing although a default was declared" % nm)
                continue
            r = fn["runs"][0] if fn.get("runs") else None
            o, prob = single_ret(r) if r else (None, "no run")
            if o is None:
                ctx.ob({"C06"}, okey, None, prob)
                continue
            bits = raw_of_struct_val(o["v"])
            d = "unexpected shape" if bits is None else diff_bits(bits, exp)
            ctx.ob({"C06"}, okey, d is None, d or "")
    # layout and Copy
    adt = cr["_adt"].get(path)
    okey = path + "|layout"
    if adt is None:
        ctx.ob({"C06"}, okey, False, "type missing")
    else:
        ref = (cr.get("prims") or {}).get(str(St)) or [St // 8, int_align(St)]
        want, want_al = ref[0], ref[1]
        d = None
        if str(adt.get("size")) != str(want):
            d = "size %s, but u%d has size %d" % (adt.get("size"), St, want)
        elif str(adt.get("align")) != str(want_al):
            d = "alignment %s, but u%d has alignment %d" % (adt.get("align"), St, want_al)
        elif not adt.get("copy"):
            d = "type is not Copy"
        ctx.ob({"C06"}, okey, d is None, d or "", sample={"decl": path, "size": adt.get("size"), "align": adt.get("align"), "copy": adt.get("copy")})


def int_align(bits):
    # x86_64 ABI alignment of the native unsigned integers (read back from the compiler for u128 below)
    return {8: 1, 16: 2, 32: 4, 64: 8, 128: 16}[bits]


# ------------------------------------------------------------------ C07 enums


def check_enum(ctx, cr, e):
    path = e["path"]
    N = e["bits"]
    St = storage_of(N)
    native = is_native(N)
    pres = enum_present(e)
    props = {"C07"}
    ctx.note_shape({"C07", "C10"}, path, ("enum", N, tuple(sorted(v["discr"] for v in pres)), e["exh"]))
    adt = cr["_adt"].get(path)
    if adt is None:
        ctx.ob(props, path + "|exists", False, "enum missing")
        return
    by_idx = {v["idx"]: v for v in adt["variants"]}
    model_by_name = {v["name"]: v["discr"] for v in pres}
    # the compiled enum has exactly the modelled (cfg-present) variants
    names = sorted(v["name"] for v in adt["variants"])
    ctx.ob({"C07"}, path + "|variants", names == sorted(model_by_name), "variants %s differ from the declaration %s" % (names[:5], sorted(model_by_name)[:5]))
    # raw_value
    fn = fn_of(cr, path, "raw_value")
    if fn is None:
        ctx.ob(props, path + "::raw_value", False, "raw_value missing")
    else:
        parts = runs_by_part(fn)
        for idx, v in by_idx.items():
            pk = (("p0", "variant%d" % idx),)
            okey = "%s::raw_value|%s" % (path, v["name"])
            run = parts.get(pk)
            if run is None:
                ctx.ob(props, okey, None, "no run for variant")
                continue
            o, prob = single_ret(run)
            if o is None:
                bad = not run.get("und") and any(x["k"] != "ret" and not x.get("und") for x in run["outs"])
                ctx.ob(props, okey, False if bad else None, prob)
                continue
            val = o["v"] if native else struct1(o["v"])
            bits = int_of(val)
            want = model_by_name.get(v["name"])
            d = "unexpected shape" if bits is None else (None if want is None else diff_bits(bits, const_bits(want, St)))
            ctx.ob(props, okey, d is None, d or "", sample={"decl": path, "fn": "raw_value", "variant": v["name"], "ret": o["v"]})
    # new_with_raw_value
    fn = fn_of(cr, path, "new_with_raw_value")
    okey0 = path + "::new_with_raw_value"
    if fn is None:
        ctx.ob(props, okey0, False, "new_with_raw_value missing")
        return
    exhaustive = e["exh"] == "true"
    # the form of the conversion follows the *declared* mode: `-> Self` only for `exhaustive = true`; every other
    # accepted enum (false, omitted, conditional -- however many variants it lists) converts into a Result
    infallible = fn.get("ret_adt") == path
    ctx.ob({"C07", "C10"}, path + "|conversion_form", infallible == exhaustive,
           "declared exhaustive = %s but new_with_raw_value returns %s" % (e["exh"], "Self" if infallible else "a Result"))
    # N <= 8: one exact analysis per concrete raw value, independent of how the conversion is written
    concrete = {}
    for r in fn.get("runs", []):
        pv = r["part"].get("p0", "")
        if pv.startswith("="):
            concrete[int(pv[1:])] = r
    concrete_ok = False
    if N <= 8 and len(concrete) == (1 << N):
        want_by_val = {d: n for n, d in model_by_name.items()}
        concrete_ok = True
        for x in range(1 << N):
            okey = "%s|raw=%d" % (okey0, x)
            o, prob = single_ret(concrete[x])
            if o is None:
                bad_ = (not concrete[x].get("und")) and any(z["k"] != "ret" and not z.get("und") for z in concrete[x]["outs"])
                ctx.ob(props | ({"C10"} if exhaustive else set()), okey, False if bad_ else None,
                       "new_with_raw_value(%d) %s" % (x, "panics: " + str(prob) if bad_ else "could not be resolved: " + str(prob)))
                concrete_ok = concrete_ok and bad_
                continue
            v = o["v"]
            d = None
            if x in want_by_val:
                inner = v
                if not exhaustive:
                    if v.get("v") != 0 or len(v.get("f", [])) != 1:
                        d = "raw value %d has the variant %s but the conversion returns %s" % (x, want_by_val[x], json.dumps(v)[:60])
                    else:
                        inner = v["f"][0]
                if d is None:
                    vi = inner.get("v")
                    nm = by_idx.get(vi, {}).get("name")
                    if nm is None or model_by_name.get(nm) != x:
                        d = "raw value %d returns %s (discriminant %s), expected %s" % (x, nm, model_by_name.get(nm), want_by_val[x])
            else:
                if exhaustive:
                    d = "raw value %d has no variant although the enum is declared exhaustive" % x
                elif v.get("v") != 1 or len(v.get("f", [])) != 1:
                    d = "raw value %d has no variant but the conversion returns %s instead of Err(%d)" % (x, json.dumps(v)[:60], x)
                else:
                    pb = int_of(v["f"][0])
                    got = bits_const(pb) if pb is not None else None
                    if got != x:
                        d = "Err payload for raw value %d is %s" % (x, got)
            ctx.ob(props | ({"C10"} if exhaustive else set()), okey, d is None, d or "",
                   sample={"decl": path, "fn": "new_with_raw_value", "raw": x, "ret": v} if (d is None and x == (1 << N) - 1) else None)
    if concrete_ok:
        return  # every raw value was decided exactly; the symbolic reading below adds nothing for N <= 8
    run = None
    for r in fn.get("runs", []):
        if not r["part"]:
            run = r
    if run is None or run.get("und"):
        if not concrete_ok:
            ctx.ob(props, okey0, None, "undecided: %s" % (run or {}).get("und"))
        return
    argsym = "p0" if native else "p0.0"
    argbits = [S(argsym, j) for j in range(N)] + [Z] * (St - N)
    if any(len({json.dumps(c["sw"], sort_keys=True) for c in o["conds"] if "sw" in c}) > 1 for o in run["outs"]):
        # the conversion branches on several values derived from the argument (nested matches on slices, ...)
        return check_enum_multi(ctx, e, run, props, okey0, path, N, argsym, argbits, exhaustive, by_idx, model_by_name)
    seen = {}
    otherwise = None
    bad = None
    und = None
    for o in run["outs"]:
        conds = o["conds"]
        # a `match` gives one condition per outcome; an if-chain gives a run of "!= c" conditions ending in one
        # "== c" (or none, for the fall-through).  Both are read as: which raw value(s) reach this outcome
        if not conds or any("sw" not in c for c in conds) or any(c["sw"] != conds[0]["sw"] for c in conds):
            und = "the conversion does not branch on one value derived from the argument (%d branch conditions): shape not understood" % len(conds)
            break
        eqs = [c["eq"] for c in conds if "eq" in c]
        if len(set(eqs)) > 1:
            continue  # contradictory: unreachable
        merged = {"sw": conds[0]["sw"]}
        if eqs:
            merged["eq"] = eqs[0]
            if any(eqs[0] in c.get("ne", []) for c in conds):
                continue  # unreachable
        else:
            merged["ne"] = sorted({x for c in conds for x in c.get("ne", [])})
        conds = [merged]
        sw = int_of(conds[0]["sw"])
        # the value matched on, as a function of the argument: every argument bit must take part, otherwise
        # several raw values share one arm
        used = {}
        weird = False
        for i, b in enumerate(sw):
            if b in (Z, O):
                continue
            if b[0] == "s" and b[1] == argsym and b[2] < N:
                used.setdefault(b[2], []).append((i, b[3]))
            else:
                weird = True
        if weird:
            und = "the value matched on is not a rearrangement of the argument's bits"
            break
        if "eq" in conds[0]:
            x = int(conds[0]["eq"])
            missing_bits = [j for j in range(N) if j not in used]
            # solve sw(r) == x for r
            r = 0
            feasible = True
            for j, occ in used.items():
                vals = {((x >> i) & 1) ^ (1 if neg else 0) for (i, neg) in occ}
                if len(vals) != 1:
                    feasible = False
                    break
                r |= vals.pop() << j
            for i, b in enumerate(sw):
                if b in (Z, O) and ((x >> i) & 1) != (1 if b == O else 0):
                    feasible = False
            if x >> len(sw):
                feasible = False
            if not feasible:
                continue
            if o["k"] != "ret":
                bad = "raw value %d ends in %s" % (r, o["k"])
                break
            if missing_bits:
                other = r ^ (1 << missing_bits[0])
                bad = "raw values %d and %d are both handled by the arm for %d: argument bit %d is ignored by the match" % (r, other, x, missing_bits[0])
                break
            v = o["v"]
            if not exhaustive:
                if v.get("v") != 0 or len(v.get("f", [])) != 1:
                    bad = "raw value %d does not return Ok(..): %s" % (r, json.dumps(v)[:80])
                    break
                v = v["f"][0]
            vi = v.get("v")
            if vi not in by_idx:
                bad = "raw value %d returns unknown variant %s" % (r, vi)
                break
            nm = by_idx[vi]["name"]
            if model_by_name.get(nm) != r:
                bad = "raw value %d returns %s whose discriminant is %s" % (r, nm, model_by_name.get(nm))
                break
            seen[r] = nm
        else:
            excluded = set()
            for xs in conds[0].get("ne", []):
                try:
                    excluded.add(int(xs))
                except Exception:
                    pass
            if N <= 20 and len({x for x in excluded if x < (1 << N)}) == (1 << N) and not [j for j in range(N) if j not in used]:
                continue  # every raw value is handled by an earlier arm: the fall-through cannot be reached
            otherwise = o
    if und and not bad:
        if not concrete_ok:
            ctx.ob(props, okey0, None, und)
        return
    if bad:
        ctx.ob(props, okey0, False, bad)
        return
    want = {d: n for n, d in model_by_name.items()}
    missing = sorted(set(want) - set(seen))
    if missing:
        ctx.ob(props, okey0 + "|cover", False, "raw values %s have a variant but are not mapped to it" % missing[:4])
    else:
        ctx.ob(props, okey0 + "|cover", True, sample={"decl": path, "fn": "new_with_raw_value", "mapped": len(seen)})
    full = len(set(want)) == (1 << N)
    if exhaustive:
        if otherwise is not None:
            ctx.ob(props | {"C10"}, okey0 + "|total", False, "exhaustive enum has a reachable fall-through (%s)" % otherwise["k"])
        else:
            notes = [n for n in run.get("notes", []) if n.get("note") == "switch_otherwise_unreachable"]
            ok = bool(notes) and int(notes[0]["listed"]) == (1 << N) and int(notes[0]["free_bits"]) == N
            ctx.ob(props | {"C10"}, okey0 + "|total", True if ok else None,
                   "" if ok else "fall-through pruned without a counted cover", sample={"decl": path, "listed": notes[0]["listed"] if notes else None})
    else:
        if full:
            # every value has a variant: the fall-through arm need not be reachable
            ctx.ob(props, okey0 + "|err", True)
        elif otherwise is None:
            ctx.ob(props, okey0 + "|err", False, "values without a variant have no outcome")
        elif otherwise["k"] != "ret":
            ctx.ob(props, okey0 + "|err", False, "values without a variant end in %s (%s)" % (otherwise["k"], otherwise.get("what")))
        else:
            v = otherwise["v"]
            okv = v.get("v") == 1 and len(v.get("f", [])) == 1
            d = None
            if not okv:
                d = "values without a variant do not return Err(..): %s" % json.dumps(v)[:80]
            else:
                d = diff_bits(int_of(v["f"][0]), argbits)
                if d:
                    d = "Err payload is not the raw value: " + d
            ctx.ob(props, okey0 + "|err", d is None, d or "", sample={"decl": path, "fn": "new_with_raw_value", "otherwise": v})


def check_enum_multi(ctx, e, run, props, okey0, path, N, argsym, argbits, exhaustive, by_idx, model_by_name):
    """general reading of a conversion's paths: every path is a conjunction of `slice == c` / `slice not in {..}`
    conditions over values built from argument bits.  A path whose equalities fix all N argument bits is the arm
    of that one raw value; any other path is a fall-through, which no raw value that has a variant may satisfy."""
    want = {d: n for n, d in model_by_name.items()}

    def slice_val(sw, r):
        v = 0
        for i, b in enumerate(sw):
            if b == O:
                v |= 1 << i
            elif b == Z:
                continue
            else:
                bit = (r >> b[2]) & 1
                if b[3]:
                    bit ^= 1
                v |= bit << i
        return v

    seen = {}
    fall = []
    for o in run["outs"]:
        conds = o["conds"]
        if not conds or any("sw" not in c for c in conds):
            ctx.ob(props, okey0, None, "a path of the conversion depends on something other than comparisons of argument bits with constants")
            return
        fixed = {}
        feasible = True
        groups = []
        for c in conds:
            sw = int_of(c["sw"])
            for b in sw:
                if b not in (Z, O) and not (b[0] == "s" and b[1] == argsym and b[2] < N):
                    ctx.ob(props, okey0, None, "a value matched on is not built from the argument's bits")
                    return
            groups.append((sw, int(c["eq"]) if "eq" in c else None, [int(x) for x in c.get("ne", []) if str(x).lstrip("-").isdigit()]))
            if "eq" in c:
                x = int(c["eq"])
                if x >> len(sw):
                    feasible = False
                for i, b in enumerate(sw):
                    want_bit = (x >> i) & 1
                    if b in (Z, O):
                        if want_bit != (1 if b == O else 0):
                            feasible = False
                    else:
                        val = want_bit ^ (1 if b[3] else 0)
                        if fixed.setdefault(b[2], val) != val:
                            feasible = False
        if not feasible:
            continue
        if len(fixed) == N:
            r = sum(v << j for j, v in fixed.items())
            if any(slice_val(sw, r) in ne for (sw, eq, ne) in groups if eq is None):
                continue  # excluded by an earlier arm: unreachable
            if o["k"] != "ret":
                if r in want or exhaustive:
                    ctx.ob(props | ({"C10"} if exhaustive else set()), okey0, False, "raw value %d ends in %s" % (r, o["k"]))
                    return
                continue
            v = o["v"]
            if r in want:
                if not exhaustive:
                    if v.get("v") != 0 or len(v.get("f", [])) != 1:
                        ctx.ob(props, okey0, False, "raw value %d does not return Ok(..): %s" % (r, json.dumps(v)[:80]))
                        return
                    v = v["f"][0]
                nm = by_idx.get(v.get("v"), {}).get("name")
                if nm is None or model_by_name.get(nm) != r:
                    ctx.ob(props, okey0, False, "raw value %d returns %s whose discriminant is %s" % (r, nm, model_by_name.get(nm)))
                    return
                seen[r] = nm
            else:
                fall.append((groups, o))
        else:
            fall.append((groups, o))
    missing = sorted(set(want) - set(seen))
    if missing:
        ctx.ob(props, okey0 + "|cover", False, "raw values %s have a variant but are not mapped to it" % missing[:4])
        return
    ctx.ob(props, okey0 + "|cover", True, sample={"decl": path, "fn": "new_with_raw_value", "mapped": len(seen), "paths": len(run["outs"])})
    # no raw value with a variant may take a fall-through path; what the fall-through returns must be Err(raw)
    for (groups, o) in fall:
        for d in want:
            if all((slice_val(sw, d) == eq) if eq is not None else (slice_val(sw, d) not in ne) for (sw, eq, ne) in groups):
                ctx.ob(props | ({"C10"} if exhaustive else set()), okey0 + "|fallthrough", False, "raw value %d has the variant %s but takes a fall-through path (%s)" % (d, want[d], o["k"]))
                return
    if exhaustive:
        full = len(want) == (1 << N)
        ctx.ob(props | {"C10"}, okey0 + "|total", True if full else None, "" if full else "exhaustive enum without all 2^N variants in the model")
        return
    if len(want) == (1 << N):
        ctx.ob(props, okey0 + "|err", True)
        return
    rets = [o for (g, o) in fall]
    if not rets:
        ctx.ob(props, okey0 + "|err", False, "values without a variant have no outcome")
        return
    for o in rets:
        if o["k"] != "ret":
            ctx.ob(props, okey0 + "|err", False, "values without a variant end in %s (%s)" % (o["k"], o.get("what")))
            return
        v = o["v"]
        if v.get("v") != 1 or len(v.get("f", [])) != 1:
            ctx.ob(props, okey0 + "|err", False, "values without a variant do not return Err(..): %s" % json.dumps(v)[:80])
            return
        d = diff_bits(int_of(v["f"][0]), argbits)
        if d:
            ctx.ob(props, okey0 + "|err", False, "Err payload is not the raw value: " + d)
            return
    ctx.ob(props, okey0 + "|err", True, sample={"decl": path, "fn": "new_with_raw_value", "fallthrough_paths": len(rets)})


# ------------------------------------------------------------------ C13 / C14 builder


def partial_path(s):
    return "%s::Partial%s" % (s["mod"].replace("()", ""), s["name"])


def check_builder(ctx, cr, s):
    path = s["path"]
    exp_exists = builder_expected(s)
    adt = cr["_adt"].get(path)
    items = set()
    if adt:
        for im in adt["impls"]:
            for it in im["items"]:
                if it.get("pub"):
                    items.add(it["name"])  # ("offered" = callable by the user: a private builder() is not offered)
    has = "builder" in items
    shape = ("builder", s["base"], s["default"] is not None, tuple((tuple(map(tuple, f["ranges"])), f["access"], (f["array"]["k"], fstride(f)) if f["array"] else None) for f in s["fields"]))
    ctx.note_shape({"C14"}, path, shape)
    why = "no bit writable twice and (%s)" % ("default declared" if s["default"] is not None else "writable fields cover all %d bits" % s["base"])
    if has != exp_exists:
        ctx.ob({"C14"}, path + "|builder_exists", False,
               ("builder() is offered although the layout is unsound for it (a bit is writable twice, or cover incomplete without default)" if has
                else "builder() is missing although %s" % why), sample=None)
        if not has:
            return
    else:
        ctx.ob({"C14"}, path + "|builder_exists", True, sample={"decl": path, "builder": has, "expected": exp_exists})
    if not has:
        return
    ctx.note_shape({"C13"}, path, shape)
    St = s["storage"]
    N = s["base"]
    pp = partial_path(s)
    padt = cr["_adt"].get(pp)
    if padt is None:
        ctx.ob({"C13", "C14"}, path + "|partial_type", False, "builder type %s missing" % pp)
        return
    # type-state graph: nodes = const args of the inherent impls; edges = methods returning Partial<m'>
    graph = {}
    finals = {}
    graph_pub = {}    # what a user outside the declaring module can call (presence is about the public API)
    finals_pub = {}
    for im in padt["impls"]:
        if im.get("generic"):
            # an impl over all masks: its methods are available in every state
            node = "*"
        else:
            node = tuple(im["consts"])
        for it in im["items"]:
            if it["kind"] != "fn":
                continue
            fn = fn_of(cr, pp, it["name"], im["consts"])
            if fn is None:
                continue
            if fn.get("ret_adt") == pp:
                graph.setdefault(node, []).append((it["name"], tuple(fn.get("ret_consts") or []), fn))
                if it.get("pub"):
                    graph_pub.setdefault(node, []).append((it["name"], tuple(fn.get("ret_consts") or []), fn))
            elif fn.get("ret_adt") == path:
                finals.setdefault(node, []).append((it["name"], fn))
                if it.get("pub"):
                    finals_pub.setdefault(node, []).append((it["name"], fn))
    bfn = fn_of(cr, path, "builder")
    if bfn is None or bfn.get("ret_adt") != pp:
        ctx.ob({"C13", "C14"}, path + "|builder_sig", False, "builder() does not return %s" % pp)
        return
    start = tuple(bfn.get("ret_consts") or [])
    writable = [f for f in s["fields"] if "w" in f["access"]]
    wnames = ["with_" + f["name"].replace("r#", "") for f in writable]
    # presence: the declaration-order chain exists and ends in a state offering build() -> S
    node = start
    okp = True
    detail = ""
    chain_fns = []
    for wn in wnames:
        nxt = [e for e in graph_pub.get(node, []) + graph_pub.get("*", []) if e[0] == wn]
        if len(nxt) != 1:
            okp = False
            hidden = [e for e in graph.get(node, []) + graph.get("*", []) if e[0] == wn]
            detail = "state %s offers no %s`%s` step" % (list(node), "public " if hidden else "", wn)
            break
        chain_fns.append(nxt[0][2])
        node = nxt[0][1]
    if okp:
        fin = [e for e in finals_pub.get(node, []) + finals_pub.get("*", []) if e[0] == "build"]
        if not fin:
            okp = False
            detail = "after all %d writable fields no build() -> %s is offered" % (len(wnames), s["name"])
    ctx.ob({"C14"}, path + "|chain_present", okp, detail, sample={"decl": path, "chain": wnames})
    # absence: every path from start to a state that can produce S carries every with_<field>
    need = set(wnames)
    bad = None
    stack = [(start, frozenset())]
    seen = set()
    nstates = 0
    while stack and not bad:
        nd, have = stack.pop()
        if (nd, have) in seen:
            continue
        seen.add((nd, have))
        nstates += 1
        if nstates > 20000:
            bad = "type-state graph too large"
            break
        for (nm, fn) in finals.get(nd, []) + finals.get("*", []):
            if not need <= have:
                bad = "`%s()` returning %s is reachable in state %s after only %s (missing %s)" % (nm, s["name"], list(nd), sorted(have), sorted(need - have))
                break
        for (nm, nx, fn) in graph.get(nd, []) + graph.get("*", []):
            stack.append((nx, have | ({nm} if nm in need else frozenset())))
    ctx.ob({"C14"}, path + "|build_unreachable_until_complete", bad is None, bad or "", sample={"decl": path, "states": nstates})
    if not okp:
        return
    # C13: initial value
    dv = s["default"]["value"] if s["default"] is not None else 0
    r = bfn["runs"][0] if bfn.get("runs") else None
    o, prob = single_ret(r) if r else (None, "no run")
    okey = path + "::builder"
    props13 = {"C13"}
    if o is None:
        ctx.ob(props13, okey, None, prob)
    else:
        bits = raw_of_struct_val(o["v"], 1)
        d = "unexpected shape" if bits is None else diff_bits(bits, const_bits(dv, St))
        ctx.ob(props13, okey, d is None, ("builder() does not start from the %s: %s" % ("default" if s["default"] is not None else "zero value", d)) if d else "",
               sample={"decl": path, "fn": "builder", "ret": o["v"]})
    # each step applies exactly with_<field> to the wrapped value
    for f, fn in zip(writable, chain_fns):
        fname = f["name"].replace("r#", "")
        okey = "%s::with_%s" % (pp, fname)
        isbool = f["ty"]["k"] == "bool"
        parts = runs_by_part(fn)
        K = fcount(f)
        w = fwidth(f)
        for bv in ([False, True] if (isbool and not f["array"]) else [None]):
            pk = (("p1", "true" if bv else "false"),) if bv is not None else ()
            run = parts.get(pk)
            if run is None:
                ctx.ob(props13, okey, None, "no run for partition %s" % (pk,))
                continue
            o, prob = single_ret(run)
            if o is None:
                bad2 = not run.get("und") and any(x["k"] != "ret" and not x.get("und") for x in run["outs"])
                ctx.ob(props13, okey, False if bad2 else None, prob)
                continue
            exp = [S(self_sym(1), k) for k in range(St)]
            prob = None
            custom = f["ty"]["k"] in ("enum", "optenum", "nested")
            calls = o["calls"]
            tname = f["ty"].get("name", "").split("::")[-1]
            if custom:
                if len(calls) != K or any(not c["callee"].endswith("%s::raw_value" % tname) for c in calls):
                    prob = "expected %d calls to %s::raw_value, found %s" % (K, tname, [c["callee"] for c in calls][:4])
            elif calls:
                prob = "unexpected opaque calls %s" % [c["callee"] for c in calls][:3]
            if not prob:
                for i in range(K):
                    if isbool:
                        ab = [O if bv else Z] if not f["array"] else [S("p1[%d]" % i, 0)]
                    elif custom:
                        a = calls[i]["args"][0]
                        pname = "p1[%d]" % i if f["array"] else "p1"
                        if not arg_is_param(a, pname):
                            prob = "raw_value() call %d is not on element %d of the argument" % (i, i)
                            break
                        cs = "c%d" % i
                        ab = [S(cs if (w != 1 and is_native(w)) else cs + ".0", j) for j in range(w)]
                    else:
                        base = "p1[%d]" % i if f["array"] else "p1"
                        ab = arg_payload(f["ty"], base, w)
                    for j, p in enumerate(fpositions(f, i)):
                        exp[p] = ab[j]
            if not prob:
                bits = raw_of_struct_val(o["v"], 1)
                prob = "unexpected shape" if bits is None else diff_bits(bits, exp)
                if prob:
                    prob = "builder step does not equal with_%s applied to the value built so far: %s" % (fname, prob)
            ctx.ob(props13, okey + "|" + (",".join("%s=%s" % kv for kv in pk) or "-"), prob is None, prob or "",
                   sample={"decl": path, "fn": "Partial::with_" + fname, "ret": o["v"]} if prob is None else None)
    # build() returns the wrapped value unchanged
    fin = [e for e in finals.get(node, []) + finals.get("*", []) if e[0] == "build"][0][1]
    r = fin["runs"][0] if fin.get("runs") else None
    o, prob = single_ret(r) if r else (None, "no run")
    okey = pp + "::build"
    if o is None:
        ctx.ob(props13, okey, None, prob)
    else:
        bits = raw_of_struct_val(o["v"])
        d = "unexpected shape" if bits is None else diff_bits(bits, [S(self_sym(1), k) for k in range(St)])
        ctx.ob(props13, okey, d is None, ("build() does not return the accumulated value: %s" % d) if d else "")


# ------------------------------------------------------------------ C17 access surface


def dep_bits(v, sym):
    """set of bits of symbol `sym` a rendered value depends on; None if unknown (T)"""
    out = set()
    unknown = [False]

    def rec(x):
        if isinstance(x, dict):
            if "m" in x and "w" in x:
                for b in parse_map(x["m"]):
                    if b == T:
                        unknown[0] = True
                    elif b[0] == "s" and b[1] == sym:
                        out.add(b[2])
                    elif b[0] == "f":
                        for v in b[1][2:-1].split(";")[1:]:
                            nm, k = v.rsplit("@", 1)
                            if nm == sym:
                                out.add(int(k))
            else:
                for k, y in x.items():
                    rec(y)
        elif isinstance(x, list):
            for y in x:
                rec(y)

    rec(v)
    return out, unknown[0]


def check_access(ctx, cr, s):
    path = s["path"]
    adt = cr["_adt"].get(path)
    if adt is None:
        return
    St = s["storage"]
    readable = set()
    writable = set()
    for f in s["fields"]:
        if "r" in f["access"]:
            readable |= ffootprint(f)
        if "w" in f["access"]:
            writable |= ffootprint(f)
    ctx.note_shape({"C17"}, path, ("acc", tuple((f["access"], f["ty"]["k"], bool(f["array"]), len(f["ranges"])) for f in s["fields"])))
    names = set()
    for im in adt["impls"]:
        for it in im["items"]:
            if it["kind"] == "fn" and it.get("pub"):
                names.add(it["name"])  # (the API surface is what is `pub`: a private method is not a getter anyone has)
    # presence / absence by name, per declared access (a name declared twice -- a read view and a write view --
    # has the union of both specifiers)
    by_name = {}
    for f in s["fields"]:
        by_name.setdefault(f["name"].replace("r#", ""), set()).update(f["access"])
    done_names = set()
    for f in s["fields"]:
        fname = f["name"].replace("r#", "")
        if fname in done_names:
            continue
        done_names.add(fname)
        want_get = "r" in by_name[fname]
        want_set = "w" in by_name[fname]
        other_api = {pre + n for n, acc in by_name.items() if "w" in acc for pre in ("with_", "set_")}
        if not want_get and (fname in ("raw_value", "new_with_raw_value", "builder", "new", "default", "build") or fname in other_api):
            # a field without a getter may carry the name of a generated method: the method of that name is then
            # not its getter (what it can read is judged by the surface rule below, whatever it is called)
            for pre in ("with_", "set_"):
                ctx.ob({"C17"}, "%s::%s%s|%s" % (path, pre, fname, "present" if want_set else "absent"), ((pre + fname) in names) == want_set,
                       "`%s%s` %s for access `%s`" % (pre, fname, "missing" if want_set else "must not exist", f["access"] or "none"))
            continue
        ctx.ob({"C17"}, "%s::%s|getter_%s" % (path, fname, "present" if want_get else "absent"), (fname in names) == want_get,
               "getter `%s` %s for access `%s`" % (fname, "missing" if want_get else "must not exist", f["access"] or "none"),
               sample={"decl": path, "field": fname, "access": f["access"], "getter": fname in names})
        for pre in ("with_", "set_"):
            ctx.ob({"C17"}, "%s::%s%s|%s" % (path, pre, fname, "present" if want_set else "absent"), ((pre + fname) in names) == want_set,
                   "`%s%s` %s for access `%s`" % (pre, fname, "missing" if want_set else "must not exist", f["access"] or "none"))
    # builder steps follow the same specifier: a step for every writable field and for no other
    padt = cr["_adt"].get(partial_path(s))
    if (padt is not None and "builder" in names) or builder_expected(s):
        # (when the layout calls for a builder and none is offered, every writable field has lost its step)
        pnames = set()
        for im in (padt["impls"] if padt is not None and "builder" in names else []):
            for it in im["items"]:
                if it["kind"] == "fn" and it.get("pub"):
                    pnames.add(it["name"])
        for fname in sorted(by_name):
            want = "w" in by_name[fname]
            f = {"access": "".join(sorted(by_name[fname]))}
            ctx.ob({"C17"}, "%s::with_%s|builder_step_%s" % (path, fname, "present" if want else "absent"), (("with_" + fname) in pnames) == want,
                   "builder step `with_%s` %s for access `%s`" % (fname, "missing" if want else "must not exist", f["access"] or "none"))
    # semantic surface: whatever the functions are called
    sym = self_sym()
    for key, lst in cr["_fn"].items():
        (a, name, consts, trait) = key
        if a != path or trait is not None:
            continue
        fn = lst[0]
        if fn.get("generic") or fn.get("self_kind") not in ("ref", "mut") or not fn.get("pub"):
            continue
        if name in ("raw_value",):
            continue
        for run in fn.get("runs", []):
            for o in run["outs"]:
                if o["k"] != "ret":
                    continue
                okey = "%s::%s|surface|%s" % (path, name, ",".join("%s=%s" % kv for kv in sorted(run["part"].items())))
                if fn.get("ret_adt") == path or fn.get("self_kind") == "mut":
                    # a writer: bits that differ from the receiver must lie in writable footprints
                    if fn.get("self_kind") == "mut":
                        bits = raw_of_struct_val(o["cells"].get("p0"))
                    else:
                        bits = raw_of_struct_val(o["v"])
                    if bits is None:
                        continue
                    changed = {k for k, b in enumerate(bits) if b != S(sym, k)}
                    extra = sorted(changed - writable)
                    ctx.ob({"C17"}, okey, not extra, "`%s` can change bit(s) %s which no writable field covers" % (name, extra[:6]) if extra else "")
                else:
                    deps, unk = dep_bits(o["v"], sym)
                    for c in o["calls"]:
                        d2, u2 = dep_bits(c["args"], sym)
                        deps |= d2
                        unk = unk or u2
                    extra = sorted(deps - readable)
                    ctx.ob({"C17"}, okey, False if extra else (None if unk else True),
                           "`%s` reveals bit(s) %s which no readable field covers" % (name, extra[:6]) if extra else ("result not fully resolved" if unk else ""))


# ------------------------------------------------------------------ C15 constness


def check_const(ctx, cr, decl):
    path = decl["path"]
    paths = [path]
    if decl["kind"] == "struct":
        paths.append(partial_path(decl))
    ctx.note_shape({"C15"}, path, ("const", decl["kind"], decl.get("base", decl.get("bits"))))
    for key, lst in cr["_fn"].items():
        (a, name, consts, trait) = key
        if a not in paths or trait is not None:
            continue
        fn = lst[0]
        if fn.get("self_kind") == "mut":
            continue
        listed = {"raw_value", "new_with_raw_value", "builder", "build"}
        if decl["kind"] == "struct":
            for f in decl["fields"]:
                nm = f["name"].replace("r#", "")
                listed.add(nm)
                listed.add("with_" + nm)
        if name not in listed:
            continue  # helpers outside the list of operations the property names (e.g. the deprecated new())
        ctx.ob({"C15"}, "%s::%s|const_fn" % (a, name), bool(fn.get("const")), "`%s::%s` is not a const fn" % (a, name) if not fn.get("const") else "",
               sample={"fn": "%s::%s" % (a, name), "const": fn.get("const")})
        for run in fn.get("runs", []):
            bad = [x for x in run.get("inlined", []) if "const_eval_select" in x or "intrinsics::" in x]
            if bad:
                ctx.ob({"C15"}, "%s::%s|const_pure" % (a, name), False, "calls %s, whose const and run-time behaviour may differ" % bad[:2])
    # const witnesses: rustc's const evaluator vs the model
    for c in decl.get("consts", []):
        if c.get("skip"):
            continue
        cf = cr["_const"].get("%s::%s" % (decl["mod"].replace("()", ""), c["name"]))
        okey = "%s|const_witness|%s" % (path, c["name"])
        if cf is None:
            ctx.ob({"C15"}, okey, None, "const witness not found in facts")
            continue
        ctx.note_shape({"C15"}, path, ("witness", c["expr"]))
        if "err" in cf["val"]:
            ctx.ob({"C15"}, okey, False, "const witness `%s` failed to evaluate" % c["expr"][:120])
            continue
        exp = expected_const(cr, decl, c)
        if exp is None:
            ctx.ob({"C15"}, okey, None, "the interpreter has no resolved result for `%s` to compare the const evaluation with" % c["expr"][:120])
            continue
        depth, width, val = exp
        bits = leaf_bits(cf["val"], depth)
        got = eval_bits(bits, {}) if bits is not None else None
        d = None
        if got is None:
            d = "unexpected shape %s" % json.dumps(cf["val"])[:100]
        elif got != val:
            d = "rustc's const evaluator gives 0x%x, the run-time semantics of the same body give 0x%x" % (got, val)
        ctx.ob({"C15"}, okey, d is None, ("`%s`: %s" % (c["expr"][:120], d)) if d else "",
               sample={"decl": path, "const": c["name"], "expr": c["expr"], "ctfe": "0x%x" % got} if d is None else None)


def eval_bits(bits, env):
    """concrete value of a symbolic bit map under an assignment of symbols; None if unresolved"""
    v = 0
    for i, b in enumerate(bits):
        if b == Z:
            continue
        if b == O:
            v |= 1 << i
        elif b == T:
            return None
        elif b[0] == "s":
            if b[1] not in env:
                return None
            x = ((env[b[1]] >> b[2]) & 1) ^ (1 if b[3] else 0)
            v |= x << i
        elif b[0] == "f":
            tt, *vs = b[1][2:-1].split(";")
            idx = 0
            for j, var in enumerate(vs):
                nm, k = var.rsplit("@", 1)
                if nm not in env:
                    return None
                idx |= ((env[nm] >> int(k)) & 1) << j
            v |= ((int(tt, 16) >> idx) & 1) << i
    return v


def leaf_bits(v, depth):
    for _ in range(depth):
        v = struct1(v) if v is not None else None
    return int_of(v) if v is not None else None


def run_for(fn, part):
    if fn is None:
        return None
    return runs_by_part(fn).get(tuple(sorted(part.items())))


def arg_env(ty, sym, value):
    if ty["k"] == "uint" and not is_native(ty["w"]):
        return {sym + ".0": value}
    return {sym: value}


def expected_const(cr, decl, c):
    """(struct nesting depth, width, value) the interpreter's symbolic result gives for the witness's
    concrete inputs -- the run-time semantics of the same body -- or None if it cannot be computed"""
    k = c["kind"]
    path = decl["path"]
    if decl["kind"] == "enum":
        if k != "enum_raw":
            return None
        N = decl["bits"]
        adt = cr["_adt"].get(path)
        fn = fn_of(cr, path, "raw_value")
        if adt is None or fn is None:
            return None
        vidx = [v["idx"] for v in adt["variants"] if str(v["discr"]) == str(c["discr"])]
        if not vidx:
            return None
        run = run_for(fn, {"p0": "variant%d" % vidx[0]})
        o, prob = single_ret(run) if run else (None, "")
        if o is None:
            return None
        depth = 0 if is_native(N) else 1
        bits = leaf_bits(o["v"], depth)
        val = eval_bits(bits, {}) if bits is not None else None
        return None if val is None else (depth, storage_of(N), val)
    St, N = decl["storage"], decl["base"]
    fields = {f["name"]: f for f in decl["fields"]}
    native = is_native(N)

    def wrap(raw):
        fn = fn_of(cr, path, "new_with_raw_value")
        o, _ = single_ret(fn["runs"][0]) if fn and fn.get("runs") else (None, "")
        if o is None:
            return None
        bits = raw_of_struct_val(o["v"])
        return eval_bits(bits, {"p0" if native else "p0.0": raw}) if bits is not None else None

    if k == "roundtrip":
        r1 = wrap(c["raw"])
        fn = fn_of(cr, path, "raw_value")
        o, _ = single_ret(fn["runs"][0]) if fn and fn.get("runs") else (None, "")
        if r1 is None or o is None:
            return None
        depth = 0 if native else 1
        bits = leaf_bits(o["v"], depth)
        val = eval_bits(bits, {"p0.0": r1}) if bits is not None else None
        return None if val is None else (depth, St, val)
    if k == "get":
        f = fields[c["field"]]
        fn = fn_of(cr, path, f["name"].replace("r#", ""))
        part = {} if c["idx"] is None else {"p1": str(c["idx"])}
        run = run_for(fn, part)
        o, _ = single_ret(run) if run else (None, "")
        r1 = wrap(c["raw"])
        if o is None or r1 is None:
            return None
        t = f["ty"]
        depth = 0 if (t["k"] in ("bool", "int") or is_native(t["w"])) else 1
        bits = leaf_bits(o["v"], depth)
        val = eval_bits(bits, {"p0.0": r1}) if bits is not None else None
        return None if val is None else (depth, len(bits), val)
    if k == "with":
        f = fields[c["field"]]
        fn = fn_of(cr, path, "with_" + f["name"].replace("r#", ""))
        part = {}
        ai = 1
        if c["idx"] is not None:
            part["p1"] = str(c["idx"])
            ai = 2
        env = {}
        if f["ty"]["k"] == "bool":
            part["p%d" % ai] = "true" if c["value"] & 1 else "false"
        else:
            env.update(arg_env(f["ty"], "p%d" % ai, c["value"]))
        run = run_for(fn, part)
        o, _ = single_ret(run) if run else (None, "")
        r1 = wrap(c["raw"])
        if o is None or r1 is None:
            return None
        env["p0.0"] = r1
        bits = raw_of_struct_val(o["v"])
        val = eval_bits(bits, env) if bits is not None else None
        return None if val is None else (1, St, val)
    if k == "builder":
        pp = partial_path(decl)
        bfn = fn_of(cr, path, "builder")
        o, _ = single_ret(bfn["runs"][0]) if bfn and bfn.get("runs") else (None, "")
        if o is None:
            return None
        bits = raw_of_struct_val(o["v"], 1)
        cur = eval_bits(bits, {}) if bits is not None else None
        if cur is None:
            return None
        ws = [f for f in decl["fields"] if "w" in f["access"]]
        for f, v in zip(ws, c["values"]):
            nm = "with_" + f["name"].replace("r#", "")
            cands = [lst[0] for key, lst in cr["_fn"].items() if key[0] == pp and key[1] == nm]
            if len(cands) != 1:
                return None
            part = {}
            env = {"p0.0": cur}
            if f["array"]:
                for i, vv in enumerate(v):
                    if f["ty"]["k"] == "bool":
                        env["p1[%d]" % i] = vv & 1
                    else:
                        env.update(arg_env(f["ty"], "p1[%d]" % i, vv))
            elif f["ty"]["k"] == "bool":
                part["p1"] = "true" if v & 1 else "false"
            else:
                env.update(arg_env(f["ty"], "p1", v))
            run = run_for(cands[0], part)
            o, _ = single_ret(run) if run else (None, "")
            if o is None:
                return None
            bits = raw_of_struct_val(o["v"], 1)
            cur = eval_bits(bits, env) if bits is not None else None
            if cur is None:
                return None
        return (1, St, cur)
    return None


# ------------------------------------------------------------------ C19 debug


def check_debug(ctx, cr, s):
    path = s["path"]
    if not s["debug"]:
        return
    ctx.note_shape({"C19"}, path, ("dbg", tuple((f["name"], f["ty"]["k"]) for f in s["fields"])))
    fn = fn_of(cr, path, "fmt", (), "core::fmt::Debug")
    okey = path + "|Debug::fmt"
    if fn is None:
        ctx.ob({"C19"}, okey, False, "no Debug impl although `debug` was requested")
        return
    r = fn["runs"][0] if fn.get("runs") else None
    o, prob = single_ret(r) if r else (None, "no run")
    if o is None:
        ctx.ob({"C19"}, okey, None, prob)
        return
    calls = o["calls"]
    prob = None
    # structural reading, independent of how getter calls and field() calls are interleaved:
    #   one debug_struct(name) first, finish() last and returned, field(label, &v) once per declared field in
    #   declaration order, each v being the result of that field's getter called on self; nothing else is called
    getters = {}
    fields_seen = []
    ds_chain = None
    chain = []
    finish = None
    for c in calls:
        cal = c["callee"].replace("r#", "")
        last = cal.split("::")[-1]
        if cal.startswith("core::fmt::Formatter") and last == "debug_struct":
            if ds_chain is not None:
                prob = "debug_struct called twice"
                break
            if c["args"][1] != {"str": s["name"]}:
                prob = "debug_struct is given %s, expected the struct name \"%s\"" % (json.dumps(c["args"][1])[:60], s["name"])
                break
            if fields_seen or finish:
                prob = "debug_struct is not the first formatting call"
                break
            ds_chain = "c%d" % c["n"]
            chain.append(ds_chain)
        elif cal.startswith(path + "::") and c["args"] and arg_is_param(c["args"][0], "p0") and len(c["args"]) == 1:
            getters["c%d" % c["n"]] = last
        elif cal.startswith("core::fmt::DebugStruct") and last == "field":
            if ds_chain is None or not any(arg_is_param(c["args"][0], x) for x in chain):
                prob = "field() is not called on the DebugStruct of this impl"
                break
            src = None
            for g in getters:
                if arg_is_param(c["args"][2], g):
                    src = g
            fields_seen.append((c["args"][1].get("str") if isinstance(c["args"][1], dict) else None, getters.get(src)))
            ds_chain = "c%d" % c["n"]
            chain.append(ds_chain)
        elif cal.startswith("core::fmt::DebugStruct") and last == "finish":
            if ds_chain is None or not any(arg_is_param(c["args"][0], x) for x in chain):
                prob = "finish() is not called on the DebugStruct of this impl"
                break
            finish = "c%d" % c["n"]
        else:
            prob = "unexpected call %s in the Debug impl" % cal
            break
    if not prob:
        want_fields = [(f["name"], f["name"].replace("r#", "")) for f in s["fields"]]
        if ds_chain is None:
            prob = "Formatter::debug_struct is never called"
        elif finish is None or o["v"] != {"o": finish}:
            prob = "fmt does not return DebugStruct::finish()'s result"
        elif [x[0] for x in fields_seen] != [w[0] for w in want_fields]:
            prob = "printed fields %s differ from the declared fields %s" % ([x[0] for x in fields_seen][:10], [w[0] for w in want_fields][:10])
        else:
            for (label, g), (wl, wg) in zip(fields_seen, want_fields):
                if g != wg:
                    prob = "the value printed for `%s` is %s, not the result of the getter `%s` on self" % (label, "the result of `%s`" % g if g else "something else", wg)
                    break
    ctx.ob({"C19"}, okey, prob is None, prob or "", sample={"decl": path, "calls": [c["callee"].split("::")[-1] for c in calls]})


# ------------------------------------------------------------------ C18 regime facts


ALLOWED_CRATES = {"core", "arbitrary_int"}


def check_regime(ctx, cr, cname):
    ctx.ob({"C18"}, cname + "|no_std", bool(cr.get("no_std")), "witness crate is not #![no_std]")
    bad = []
    for u in cr["unsafe"]:
        chain = u.get("macro", [])
        # compiler-generated unsafety inside built-in derives is not macro output of bitbybit
        if chain and chain[0].startswith("Derive:"):
            continue
        if "CompilerGenerated" in u["what"]:
            continue
        bad.append(u)
    ctx.ob({"C18"}, cname + "|no_unsafe", not bad, "unsafe code in the expansion: %s" % bad[:2] if bad else "", sample={"crate": cname, "unsafe_sites": len(bad)})
    foreign = set()
    nfn = 0
    for f in cr["fns"]:
        chain = f.get("macro", [])
        if not any(x.startswith("Attr:bitfield") or x.startswith("Attr:bitenum") for x in chain):
            continue
        nfn += 1
        for c in f.get("crates", []):
            if c not in ALLOWED_CRATES and c != cname:
                foreign.add((c, f["path"]))
    ctx.ob({"C18"}, cname + "|only_core_and_arbitrary_int", not foreign, "generated code refers to crate(s) %s" % sorted(foreign)[:3] if foreign else "",
           sample={"crate": cname, "generated_fns": nfn})


# ------------------------------------------------------------------ C11 invariant over all producers of S


def check_c11(ctx, cr, s):
    """bits >= N of every produced value are 0 or preserved"""
    N, St = s["base"], s["storage"]
    if is_native(N):
        return
    path = s["path"]
    pp = partial_path(s)
    ctx.note_shape({"C11"}, path, ("inv", N, tuple(tuple(map(tuple, f["ranges"])) for f in s["fields"])))
    for key, lst in cr["_fn"].items():
        (a, name, consts, trait) = key
        if a not in (path, pp):
            continue
        fn = lst[0]
        if not fn.get("pub") and fn.get("trait") is None:
            continue
        depth_self = 0 if a == path else 1
        for run in fn.get("runs", []):
            for o in run["outs"]:
                vals = []
                if o["k"] == "ret":
                    if fn.get("ret_adt") == path:
                        vals.append(("return", raw_of_struct_val(o["v"])))
                    elif fn.get("ret_adt") == pp:
                        vals.append(("return", raw_of_struct_val(o["v"], 1)))
                if fn.get("self_kind") == "mut" and "p0" in o["cells"]:
                    vals.append(("self", raw_of_struct_val(o["cells"]["p0"], depth_self)))
                for (what, bits) in vals:
                    if bits is None:
                        continue
                    okey = "%s::%s|inv|%s|%s" % (a, name, ",".join("%s=%s" % kv for kv in sorted(run["part"].items())), what)
                    bad = None
                    und = False
                    sym = self_sym(depth_self)
                    for k in range(N, St):
                        b = bits[k]
                        if b == Z or b == S(sym, k):
                            continue
                        if b == T:
                            und = True
                            continue
                        bad = "storage bit %d (above the %d-bit base) can become %s" % (k, N, show_bit(b))
                        break
                    ctx.ob({"C11"}, okey, False if bad else (None if und else True), bad or ("unresolved" if und else ""))
        # who may write the raw field
    # (one obligation per declaration, so the count follows the model and not how the generator splits its code)
    writers = 0
    foreign = 0
    for f in cr["fns"]:
        if path in f.get("assigns_fields_of", []) or path in f.get("constructs", []):
            writers += 1
            if f.get("adt") not in (path, pp):
                foreign += 1
                ctx.ob({"C11"}, "%s|raw_writer|%s" % (path, f["path"]), False, "raw_value of %s is written by %s" % (path, f["path"]))
    if not foreign:
        ctx.ob({"C11"}, "%s|raw_writers" % path, True if writers else None, "" if writers else "no function constructing the type was found")


# ------------------------------------------------------------------ C16 totality


def check_total(ctx, cr, decl):
    """no generated operation can panic / overflow in any in-range partition (strictest profile)"""
    path = decl["path"]
    paths = [path]
    if decl["kind"] == "struct":
        paths.append(partial_path(decl))
    ctx.note_shape({"C16"}, path, ("total", decl["kind"], decl.get("base", decl.get("bits")),
                                   tuple((tuple(map(tuple, f["ranges"])), f["ty"]["k"], (f["array"]["k"], fstride(f)) if f["array"] else None) for f in decl.get("fields", []))))
    for key, lst in cr["_fn"].items():
        (a, name, consts, trait) = key
        if a not in paths or trait is not None:
            continue
        fn = lst[0]
        if fn.get("generic") or "runs" not in fn:
            continue
        if not fn.get("pub"):
            continue  # private helpers are not operations a user can call; they are covered through their callers
        has_concrete = any(str(v).startswith("=") for r in fn["runs"] for v in r["part"].values())
        for run in fn["runs"]:
            part = run["part"]
            if any(str(v).startswith(">=") for v in part.values()):
                continue  # the out-of-range index class: its panic is the documented one (C03)
            if has_concrete and not part:
                continue  # every concrete raw value is analysed separately and exactly
            okey = "%s::%s|total|%s" % (a, name, ",".join("%s=%s" % kv for kv in sorted(part.items())) or "-")
            if run.get("und"):
                ctx.ob({"C16"}, okey, None, "undecided: %s" % run["und"])
                continue
            bad = [o for o in run["outs"] if o["k"] != "ret" and not o.get("und")]
            may = [o for o in run["outs"] if o.get("und")]
            if bad:
                o = bad[0]
                ctx.ob({"C16"}, okey, False, "`%s::%s` can panic for an in-range input: %s %s" % (a, name, o.get("what"), json.dumps(o.get("args", ""))[:80]))
            elif may:
                ctx.ob({"C16"}, okey, None, "an overflow/bounds assert could not be decided: %s" % may[0].get("what"))
            elif not run["outs"]:
                ctx.ob({"C16"}, okey, None, "no outcome")
            else:
                ctx.ob({"C16"}, okey, True, sample={"fn": "%s::%s" % (a, name), "part": part, "outcomes": len(run["outs"])} if name.startswith("with_") else None)


# ------------------------------------------------------------------ C12 frame conditions


def check_c12_struct(ctx, cr, s):
    """(P3) one field, no other state; getters are functions of self only (checked via the getter maps)"""
    path = s["path"]
    adt = cr["_adt"].get(path)
    if adt is None:
        return
    fields = adt.get("fields", [])
    ok = len(fields) == 1 and fields[0]["ty"] == "u%d" % s["storage"]
    ctx.ob({"C12", "C06"}, path + "|single_raw_field", ok, "struct has fields %s, expected one u%d" % ([f["ty"] for f in fields], s["storage"]) if not ok else "")


# ------------------------------------------------------------------ drivers per family


def regime_error(x):
    m = x.get("message", "")
    return ("missing documentation" in m) or ("`std`" in m) or ("`alloc`" in m) or (x.get("code") == "E0433" and "std" in m)


def decl_text(d):
    try:
        from corpus import render_enum, render_struct, stamp_lines
        if d["kind"] == "struct":
            lines = render_struct(d)
            if d.get("via_macro"):
                lines = stamp_lines(d, lines)
        else:
            lines = render_enum(d)
        return " ".join(l.strip() for l in lines)
    except Exception:
        return d.get("path", "")


def analyse_positive(ctx, want_props):
    facts = ctx.facts
    for cname in facts.pos_crates():
        decls = facts.decls(cname)
        fams = {d.get("family") for d in decls}
        cr = facts.crate(cname)
        if cname.startswith("pos_accepted"):
            # declarations the rules call invalid but the macro accepted (each already a C09 violation on the
            # must-fail side): only the properties that speak about *accepted* declarations are evaluated here
            if cr is not None:
                for d in decls:
                    if d["kind"] == "struct" and not d.get("skip"):
                        if "C11" in want_props:
                            check_c11(ctx, cr, d)
                        if "C16" in want_props:
                            check_total(ctx, cr, d)
            continue
        diags = facts.diags(cname)
        # accept side of C09/C10 and regime of C18: the crate compiled without errors
        for d in decls:
            if d["kind"] == "raw" and d.get("prop"):
                # compiling twin of an E0599 witness
                q = d.get("quarantined") or [x for x in diags if any(a.get("line") and d["line0"] <= a["line"] <= d["line1"] for a in x["at"])]
                qnames = set()
                for z in decls:
                    if z.get("skip") and z is not d:
                        qnames.add(z["name"])
                        qnames.update(z.get("defines", []))
                if q and all(any(("`%s`" % n) in x.get("message", "") for n in qnames) for x in q):
                    continue  # it only fails because a declaration it uses was quarantined: that one carries the verdict
                ctx.note_shape({d["prop"]}, cname + "::" + d["path"], ("twin", d["clause"]))
                ctx.ob({d["prop"]}, "%s|%s|%s|twin_compiles" % (cname, d["path"], d["clause"]), not q,
                       "the compiling twin of a must-fail witness does not compile (%s): %s" % (d["clause"], q[0]["message"][:200] if q else ""),
                       sample={"twin": d["path"], "clause": d["clause"]})
                continue
            if d["kind"] not in ("struct", "enum"):
                continue
            mine = d.get("quarantined") or [x for x in diags if any(a.get("line") and d["line0"] <= a["line"] <= d["line1"] for a in x["at"])]
            qnames = set()
            for z in decls:
                if z.get("skip") and z is not d:
                    qnames.add(z["name"])
                    qnames.update(z.get("defines", []))
            if mine and all(x.get("round", 1) >= 2 and any(("`%s`" % n) in x.get("message", "") for n in qnames) for x in mine):
                # it only fails because a declaration it refers to was quarantined: that one carries the verdict
                continue
            regime = [x for x in mine if regime_error(x)]
            is_regime = mine and (d.get("std_ok") is True or len(regime) == len(mine))
            p = {"C18"} if is_regime else {"C09" if d["kind"] == "struct" else "C10"}
            allp = {"C09" if d["kind"] == "struct" else "C10", "C18"}
            ctx.note_shape(allp, d["path"], ("accept", d["kind"], d["path"]))
            if not mine:
                ctx.ob(allp, d["path"] + "|accepted", True, sample={"decl": d["path"], "family": d.get("family"), "compiles": True})
            else:
                what = "its expansion does not compile under #![no_std] + #![deny(missing_docs)]" if p == {"C18"} else "rule-valid declaration is rejected (or its expansion does not type-check)"
                p2 = set(p)
                if p != {"C18"} and d.get("family") == "ABASE":
                    # the base-width family is C06's quantifier ("for every base type"): a width for which the plain
                    # type does not even compile has no raw-value round trip, constants or layout at all
                    p2.add("C06")
                if p != {"C18"} and d["kind"] == "struct" and d.get("default") is not None and any("default" in x.get("message", "").lower() for x in mine):
                    # the declared default itself is what the macro refuses: the value C06 promises for DEFAULT /
                    # Default::default() / new() cannot be had for this (rule-valid) way of declaring it
                    p2.add("C06")
                if p != {"C18"} and d["kind"] == "struct" and d.get("default") is not None and d.get("family") == "MISC" and d["name"].startswith(("DbgFirst", "Lit")):
                    # these witnesses exist for the ways a default can be *written* (argument order, literal forms)
                    p2.add("C06")
                if p != {"C18"} and d["kind"] == "struct" and d.get("family") == "MISC" and d["name"].startswith(("Unit", "Empty")):
                    # field-less types written in every form: what remains of such a type is exactly C06's subject
                    p2.add("C06")
                if p != {"C18"} and d.get("mod") == "misc_okctx" and d["kind"] == "struct" and d.get("default") is not None:
                    # next to user items called Ok / Err: a declared default that stops compiling there is C06's loss
                    p2.add("C06")
                if p != {"C18"} and d.get("mod") == "misc_corectx":
                    # these witnesses sit next to a user item called `core`: failing there means the expansion names
                    # something that is not ::core (C18); for a `debug` struct it is the Debug impl that is lost (C19)
                    p2.add("C18")
                    if d.get("debug"):
                        p2.add("C19")
                if p != {"C18"} and d["kind"] == "struct" and d.get("debug") and any("debug" in x.get("message", "").lower() for x in mine):
                    # the `debug` option itself is what fails: there is no {:?} output for this (rule-valid) declaration
                    p2.add("C19")
                if p != {"C18"} and d["kind"] == "struct" and (d.get("family") in ("CUSTOM", "MACRO") or (d.get("family") == "MISC" and d["name"].startswith(("Paths", "UsesNoDerive")))) \
                        and any(f["ty"]["k"] in ("enum", "optenum", "nested") for f in d["fields"]):
                    # these witnesses exist to show C08 for every kind and spelling of a custom-typed field: if one
                    # does not compile, the conversion the property promises for it does not exist
                    p2.add("C08")
                ctx.ob(p2, d["path"] + "|accepted", False, "%s: %s [%s]" % (what, mine[0]["message"][:220], decl_text(d)[:200]))
                for q in allp - p:
                    ctx.ob({q}, d["path"] + "|accepted", True)
            for k in d.get("consts", []):
                if k.get("quarantined"):
                    q0 = k["quarantined"][0]
                    msg0 = q0.get("message", "")
                    constish = q0.get("code") in ("E0015", "E0080", "E0658", "E0493") or "non-const" in msg0 or "evaluation" in msg0 or "would overflow" in msg0
                    if not constish:
                        continue  # the witness fails for a reason that is not about const evaluation (e.g. the method no longer exists)
                    ctx.ob({"C15"}, "%s|const_witness|%s" % (d["path"], k["name"]), False,
                           "`%s` cannot be evaluated in a const context: %s" % (k["expr"][:120], k["quarantined"][0]["message"][:200]))
        if cr is None:
            unattributed = [x for x in diags]
            ctx.ob({"C09", "C10", "C18"}, cname + "|facts", None if not unattributed else False,
                   "witness crate did not compile: %s" % (unattributed[0]["message"][:200] if unattributed else "no facts"))
            continue
        if cr.get("errors"):
            ctx.ob(set(want_props), cname + "|driver_errors", None, "driver errors: %s" % cr["errors"][:2])
        if "C18" in want_props:
            check_regime(ctx, cr, cname)
        if "C16" in want_props and not cname.startswith("pos_accepted"):
            ed = (facts.meta.get("expand_diff") or {}).get(cname)
            if ed is None:
                ctx.ob({"C16"}, cname + "|expansion_profile_independent", None, "no expansion comparison for this crate")
            elif ed.get("same") is False:
                ctx.ob({"C16"}, cname + "|expansion_profile_independent", False,
                       "the macro expands this crate differently when it is built without debug assertions / overflow checks (as in a --release build): "
                       "expanded line %s: `%s` vs `%s`" % (ed.get("line"), ed.get("dev", "")[:120], ed.get("rel", "")[:120]))
            else:
                ctx.ob({"C16"}, cname + "|expansion_profile_independent", True if ed.get("same") else None, ed.get("why", ""),
                       sample={"crate": cname, "expanded_lines": ed.get("lines"), "dev_vs_release_built_macro": "identical"})
        if want_props & {"C16", "C01", "C02", "C03", "C07", "C11"} and not cname.startswith("pos_accepted"):
            pd = (facts.meta.get("profile_diff") or {}).get(cname)
            if pd is None or not pd.get("compared"):
                ctx.ob({"C16"}, cname + "|mir_profile_independent", None, "no comparison of the two build profiles for this crate (%s)" % ((pd or {}).get("why") or "nothing compared"))
            else:
                by_path = {d["path"]: d for d in decls if d.get("kind") in ("struct", "enum")}
                for df in pd.get("diffs", []):
                    props = {"C16"}
                    part = df.get("part") or {}
                    oob = any(str(v).startswith(">=") for v in part.values())
                    nm = df["name"]
                    if oob:
                        props.add("C03")
                    elif nm.startswith(("with_", "set_")):
                        props.add("C02")
                    elif by_path.get(df.get("adt"), {}).get("kind") == "enum":
                        props.add("C07")
                    else:
                        props.add("C01")
                    dd = by_path.get(df.get("adt"))
                    if dd and dd.get("kind") == "struct" and not is_native(dd["base"]) and nm.startswith(("with_", "set_")):
                        props.add("C11")
                    ctx.ob(props, "%s|profile|%s" % (df["fn"], ",".join("%s=%s" % kv for kv in sorted(part.items()))), False,
                           "`%s` behaves differently when the user's crate is built without debug assertions / overflow checks: outcomes %s vs %s (%s | %s)"
                           % (df["fn"], df.get("dev"), df.get("rel"), df.get("dev_v", "")[:70], df.get("rel_v", "")[:70]))
                if not pd.get("diffs"):
                    ctx.ob({"C16"}, cname + "|mir_profile_independent", True, sample={"crate": cname, "function_partitions_compared": pd["compared"], "differences": 0})
        def judge_decl(d):
            if d.get("skip"):
                return
            if d["kind"] == "enum":
                if want_props & {"C07", "C10"}:
                    check_enum(ctx, cr, d)
                if "C16" in want_props:
                    check_total(ctx, cr, d)
                if "C15" in want_props:
                    check_const(ctx, cr, d)
                return
            if d["kind"] != "struct":
                return
            if want_props & {"C01", "C03", "C04", "C05", "C08", "C12"} or ("C16" in want_props and any(f["array"] for f in d["fields"])):
                for f in d["fields"]:
                    if "C16" in want_props and len(want_props) == 1 and not f["array"]:
                        continue  # (C16 only needs the out-of-range classes of array accessors from this rule)
                    if "r" in f["access"] and not self_overlapping(f):
                        check_getter(ctx, cr, d, f)
            if want_props & {"C02", "C03", "C04", "C05", "C08", "C12"} or ("C16" in want_props and any(f["array"] for f in d["fields"])):
                for f in d["fields"]:
                    if "C16" in want_props and len(want_props) == 1 and not f["array"]:
                        continue
                    if "w" in f["access"] and not self_overlapping(f):
                        check_writers(ctx, cr, d, f)
                    elif "w" in f["access"]:
                        check_frame_only(ctx, cr, d, f)
            if want_props & {"C01", "C06", "C11", "C15"}:
                check_basics(ctx, cr, d)
            if want_props & {"C12", "C06"}:
                check_c12_struct(ctx, cr, d)
            if want_props & {"C13", "C14"}:
                check_builder(ctx, cr, d)
            if "C17" in want_props:
                check_access(ctx, cr, d)
            if "C15" in want_props:
                check_const(ctx, cr, d)
            if "C19" in want_props:
                check_debug(ctx, cr, d)
            if "C11" in want_props:
                check_c11(ctx, cr, d)
            if "C16" in want_props:
                check_total(ctx, cr, d)

        for d in decls:
            try:
                judge_decl(d)
            except Exception as exc:  # an internal error on one declaration must not take the other verdicts with it
                import traceback
                ctx.ob(set(want_props), "%s|judge_internal_error" % d.get("path"), None,
                       "internal error while judging this declaration: %r at %s" % (exc, traceback.format_exc().strip().splitlines()[-3].strip()[:120]))
