#!/usr/bin/env python3
"""Rules over the must-fail corpus and the generator token scan (filled in below)."""


def analyse_negative(ctx, want_props):
    return


def analyse_generator(ctx):
    return
