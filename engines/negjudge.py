#!/usr/bin/env python3
"""Rules over the must-fail corpus (rustc diagnostics) and the generator token scan."""
import json
import os
import subprocess

import build as buildmod


def attributed(diags, d):
    return [x for x in diags if any(a.get("line") and d["line0"] <= a["line"] <= d["line1"] for a in x["at"])]


def analyse_negative(ctx, want_props):
    facts = ctx.facts
    labels = [r["label"] for r in facts.runs if r["label"].startswith("neg")]
    for cname in facts.meta["crates"]:
        m = facts.model.get(cname)
        if not m or m["kind"] == "pos":
            continue
        witnesses = [d for d in m["decls"] if d["kind"] == "neg"]
        if not any(d["prop"] in want_props for d in witnesses):
            continue
        for label in labels:
            if m.get("only_label") not in (None, label):
                continue  # (a crate of re-compiled witnesses belongs to the configuration it was re-compiled in)
            diags = facts.diags(cname, label)
            resolution_broken = any(x.get("code") in ("E0433", "E0412", "E0425", "E0432", "E0405") for x in diags)
            claimed = set()
            for d in witnesses:
                mine = attributed(diags, d)
                for x in mine:
                    claimed.add(id(x))
                if d["prop"] not in want_props or label in d.get("rechecked", []):
                    continue  # (rechecked witnesses get their verdict in the crate they were re-compiled in)
                props = {d["prop"]}
                key = "%s|%s|%s|rejected%s" % (cname, d["path"], d["clause"], "" if label == "neg" else "|" + label)
                ctx.note_shape(props, cname + "::" + d["path"], ("reject", d["clause"], d.get("base"), json.dumps(d.get("shape"), sort_keys=True)))
                if not mine and resolution_broken:
                    ctx.ob(props, key, None, "the must-fail crate has name-resolution errors elsewhere; rustc stops before type checking, so this witness's (type-level) rejection cannot be observed")
                    continue
                if not mine:
                    ctx.ob(props, key, False,
                           "must-fail witness compiles: %s -- accepted: %s" % (d["clause"], " ".join(l.strip() for l in d["lines"])[:260]),
                           sample=None)
                    continue
                want_code = d.get("expect_code")
                if want_code and not any(x.get("code") == want_code for x in mine):
                    ctx.ob(props, key, None, "rejected, but not with %s: %s" % (want_code, mine[0]["message"][:120]))
                    continue
                ctx.ob(props, key, True, sample={"witness": d["path"], "clause": d["clause"], "rustc": (mine[0].get("code") or "") + " " + mine[0]["message"][:140]})
            stray = [x for x in diags if id(x) not in claimed]
            if stray:
                ctx.ob(set(want_props), "%s|unattributed_errors|%s" % (cname, label), None,
                       "%d rustc error(s) in the must-fail crate belong to no witness, e.g. %s at %s" % (len(stray), stray[0]["message"][:160], stray[0]["at"][:1]))


def analyse_generator(ctx):
    """C18, generator level: no `unsafe` token and no std/alloc-rooted path in any emitted template"""
    src = os.path.join(buildmod.REPO, "bitbybit", "src")
    if not os.path.exists(buildmod.GENSRC_BIN):
        ctx.ob({"C18"}, "generator|token_scan", None, "gensrc tool not built")
        return
    r = subprocess.run([buildmod.GENSRC_BIN, src, "--templates"], stdout=subprocess.PIPE, stderr=subprocess.PIPE, text=True)
    if r.returncode != 0:
        ctx.ob({"C18"}, "generator|token_scan", None, "gensrc failed: %s" % r.stderr[-300:])
        return
    d = json.loads(r.stdout)
    ctx.note_shape({"C18"}, "generator", ("templates", d.get("templates")))
    ctx.ob({"C18"}, "generator|templates_found", d.get("templates", 0) >= 20, "only %s quote! templates found" % d.get("templates"),
           sample={"templates": d.get("templates"), "string_sources": d.get("string_sources"), "files": d.get("files")})
    PROFILE = ("debug_assert", "debug_assert_eq", "debug_assert_ne", "debug_assertions", "overflow_checks", "to_ne_bytes", "from_ne_bytes", "target_endian", "target_pointer_width")
    prof = [f for f in d.get("findings", []) if f["token"] in PROFILE]
    other = [f for f in d.get("findings", []) if f["token"] not in PROFILE]
    for f in other:
        ctx.ob({"C18"}, "generator|%s|%s|%s" % (f["kind"], f["file"], f["token"]), False,
               "generator template in %s emits `%s` (%s)" % (f["file"], f["token"], f["kind"]))
    for f in prof:
        ctx.ob({"C16"}, "generator|%s|%s|%s" % (f["kind"], f["file"], f["token"]), False,
               "generator template in %s emits `%s`: what the generated code does then depends on the build profile / target of the user's crate" % (f["file"], f["token"]))
    if not other:
        ctx.ob({"C18"}, "generator|no_unsafe_no_std_tokens", True, sample={"scanned_tokens": d.get("tokens")})
    if not prof:
        ctx.ob({"C16"}, "generator|no_profile_or_target_dependent_tokens", True, sample={"scanned_tokens": d.get("tokens"), "templates": d.get("templates")})
    ok = d.get("selftest") == "ok"
    ctx.ob({"C18"}, "generator|scanner_selftest", ok, "the scanner's own positive example (an `unsafe` block and a ::std path in a quote! template) was not flagged")
