#!/bin/sh
# builds the analysis tools from files on disk only (offline)
set -e
cd "$(dirname "$0")"
export CARGO_NET_OFFLINE=true
(cd engines/bbdrv && cargo build --offline)
if [ -d engines/gensrc ]; then (cd engines/gensrc && cargo build --offline); fi
echo setup ok
